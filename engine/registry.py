"""Harness registry: which Kani harness decides which property, in which overlay flavour, with
which bounds / stubs / assumptions (the texts go into the evidence files verbatim)."""
import os
import re

GEN_INFO = {}

ATTACH_MOD = {
    "lib": "", "transport": "transport", "fusedev": "transport::fusedev",
    "virtiofs": "transport::virtiofs", "server": "api::server", "srvsync": "api::server::sync_io",
    "vfs": "api::vfs", "pseudo": "api::pseudo_fs", "pt": "passthrough", "ptsync": "passthrough::sync_io",
    "filebuf": "common::file_buf", "abi": "abi::fuse_abi", "fsmod": "api::filesystem",
    "vfssync": "api::vfs::sync_io", "srvasync": "api::server::async_io",
}

H = []

STUB_TC = "std::rt::thread_cleanup -> no-op (Kani ICE work-around, no semantic content)"
STUB_FMT = "std::fmt::format -> empty String (log/format! text is never the subject)"
MODEL = ("MODEL TRANSPORT: src/transport/{mod.rs,fusedev,virtiofs} replaced by /verif/models/transport.rs "
         "(flat request buffer, FuseDevWriter mirrored line by line, write(2)/writev(2) -> ghost device); "
         "validated by running the repository's own api::server and fusedev writer tests against it")


def fqn(file, fn):
    base = os.path.basename(file)
    if base.startswith("GEN:"):
        base = base[4:]
    attach, _, rest = base.partition("__")
    mod = ATTACH_MOD[attach]
    return "::".join([x for x in (mod, "verif_" + rest[:-3], fn) if x])


def reg(file, fn, props, tier="quick", flavour="real", timeout=600, timeout_thorough=None, mem=12,
        support=(), features=None, cost=1, **kw):
    files = [file] + list(support)
    if features is None and flavour == "real":
        features = ["fusedev", "virtiofs"]
    d = dict(fqn=fqn(file, fn), fn=fn, files=files, props=list(props), tier=tier, flavour=flavour,
             timeout=timeout, timeout_thorough=timeout_thorough or max(timeout, 3600), mem=mem,
             features=features, cost=cost)
    d.update(kw)
    H.append(d)
    return d


# Written but NOT registered (never seen to finish in this sandbox; an unverified harness is not part of any claim):
#   c14_insert_mount_{fresh,over}: symex completes (212 719 VCCs) but the SAT query did not finish in 40 min
#   c07_allocate_idx: drop glue of the 256-entry clone dominates, no verdict in 32 min
#   c07_rootmnt_rename_concrete: timeout at 850 s; c07_rootmnt_route_setattr_vacant: never run to completion
UNREGISTERED = ("c14_insert_mount_fresh", "c14_insert_mount_over", "c07_allocate_idx", "c07_rootmnt_rename_concrete", "c07_rootmnt_route_setattr_vacant")


# The quick tier has to finish well inside 900 s on 16 cores (measured by `vp check`): harnesses
# that alone take > 250 s, or that ran out of memory once, run in the thorough tier only.
QUICK_DEMOTE = {
    "verif_dispatch::short::c01_len39", "verif_dispatch::batch_forget::c01_oversize", "verif_dispatch::op19::c01",
    "verif_ops_a::getattr::c01_devfail", "verif_ops_a::getattr::c01_tiny", "verif_ops_a::getattr::c01_zero",
    "verif_ops_a::getattr::c01_nospace", "verif_ops_a::getattr::c01_trunc", "verif_ops_b::symlink::c01",
    "verif_ops_b::mkdir::c01_lenhigh", "verif_dispatch::setlkw::c02",
    "verif_core::c07_rootmnt_rename_pseudo_dir", "verif_core::c07_rootmnt_rename_same",
}


def is_quick(h):
    return h["tier"] == "quick" and not any(h["fqn"].endswith(d) for d in QUICK_DEMOTE)


def select(pid, tier):
    out = []
    for h in H:
        if pid not in h["props"] or h["fn"] in UNREGISTERED:
            continue
        if tier == "quick" and not is_quick(h):
            continue
        out.append(dict(h))
    return out


TAG = re.compile(r"\[(C\d+)\]")


def attributed(failure, h, pid):
    """does this failing check count against property `pid`?"""
    tags = TAG.findall(failure["desc"])
    if tags:
        return pid in tags
    # untagged = Kani's automatic checks (panic, overflow, index, pointer validity) or a harness
    # sanity assertion; they belong to the harness's primary property
    return h["props"][0] == pid


def finding_key(h, failures):
    """role-based key for known findings: harness role + sorted assertion texts' tags"""
    role = h.get("role", h["fn"])
    descs = sorted(set(re.sub(r"\s+", " ", f["desc"]) for f in failures))
    first = descs[0] if descs else ""
    return "%s:%s" % (role, first[:80])


def assumptions_for(pid, hs):
    out = set()
    for h in hs:
        for a in h.get("assumptions", []) or []:
            out.add(a)
        for s in h.get("stubs", []) or []:
            out.add("stub: " + s)
        if h["flavour"].startswith("model"):
            out.add(MODEL)
    out.add("bounded: every claim is for all inputs within the bounds listed per harness; nothing is claimed outside them")
    return sorted(out)


# ============================================================================ C13
C13_GEN = "harness/real/GEN:abi__c13_gen.rs"
C13_STRUCTS = """AccessIn Attr AttrOut BatchForgetIn BmapIn BmapOut CopyFileRangeIn CreateIn Dirent Direntplus
EntryOut FallocateIn FileLock FlushIn ForgetIn ForgetOne FsyncIn GetattrIn GetxattrIn GetxattrOut InHeader
InitIn InitIn2 InitOut InterruptIn IoctlIn IoctlIovec IoctlOut Kstatfs LinkIn LkIn LkOut LseekIn LseekOut
MkdirIn MknodIn NotifyDeleteOut NotifyInvalEntryOut NotifyInvalInodeOut NotifyPollWakeupOut NotifyRetrieveIn
NotifyStoreOut Notify_Retrieve_Out OpenIn OpenOut OutHeader PollIn PollOut ReadIn ReleaseIn RemovemappingIn
RemovemappingOne Rename2In RenameIn SetattrIn SetupmappingIn SetxattrIn StatfsOut WriteIn WriteOut""".split()
for s in C13_STRUCTS:
    reg(C13_GEN, "c13_layout_" + s, ["C13"], unwindset_ioerr=False, timeout=300,
        what="decode a symbolic byte image of %s with ByteValued::from_slice; every scalar field equals the "
             "little-endian integer at the kernel's offset/width (C compiler's offsetof/sizeof on linux/fuse.h); "
             "as_slice round-trips" % s,
        bounds="all 2^(8*size) byte images of the structure; no loops except the byte-compare (unwind size+2)",
        functions=["%s: ByteValued::from_slice/as_slice" % s])
for i in range(5):
    reg(C13_GEN, "c13_consts_%d" % i, ["C13"], unwindset_ioerr=False, timeout=300,
        what="crate constants/enumerators/bitflags members equal the header's values (block %d)" % i,
        bounds="constants: decided by constant propagation", functions=["abi::fuse_abi constants", "Opcode", "NotifyOpcode", "FsOptions", "OpenOptions", "SetattrValid", "IoctlFlags"])
reg("harness/real/abi__c13_opcode.rs", "c13_opcode_total", ["C13"], unwindset_ioerr=False, timeout=300,
    what="Opcode::from(x) for all 2^32 x", bounds="x: u32 fully symbolic", functions=["Opcode::from"])
for fn in ("c13_stat_to_attr", "c13_attr_to_stat_roundtrip", "c13_setattr_in_to_stat", "c13_statvfs_to_kstatfs",
           "c13_filelock_both_ways"):
    reg("harness/real/abi__c13_conv.rs", fn, ["C13"], unwindset_ioerr=False, timeout=300,
        what="conversion preserves every wire-representable field", bounds="all field values symbolic (full width)",
        functions=["Attr::with_flags", "From<Attr> for stat64", "From<SetattrIn> for stat64", "From<statvfs64> for Kstatfs", "FileLock conversions"])


# ============================================================================ opcode family (model overlay)
MSUP = ["harness/model/srvsync__support.rs", "harness/model/GEN:srvsync__koff.rs"]
OPS_A = "harness/model/srvsync__ops_a.rs"
SRV_FUNCS = ["api::server::sync_io::Server::<handler>", "SrvContext::{reply_ok,do_reply_error,handle_attr_result}",
             "Context::from(&InHeader)", "impl FileSystem for Arc<FS> (forwarding)", "encode_io_error_kind",
             "ByteValued::as_slice of the reply structures"]
SRV_STUBS = [STUB_TC, STUB_FMT, "scripted FileSystem `SymFs` (every trait method implemented; records arguments, returns the scripted answer)",
             "ghost /dev/fuse: write(2)/writev(2) accepted whole or refused (concrete per instance)"]
PROP_OF = {"c01": "C01", "c02": "C02", "c03": "C03"}
QUICK_OPS = {"getattr", "setlkw", "open", "release", "statfs", "getlk"}


def reg_op(file, mod, variant, s_desc, quick=False, timeout=900, **kw):
    prop = PROP_OF[variant[:3]]
    stubs = kw.pop("stubs", SRV_STUBS)
    extra_props = kw.pop("extra_props", [])
    geometry = {"": "request exactly the opcode's structure, ample reply buffer", "_long": "9 surplus request bytes, reply buffer exactly fits",
                "_trunc": "request one byte short", "_nospace": "reply buffer one byte short", "_tiny": "reply buffer 15 bytes",
                "_zero": "reply buffer 0 bytes", "_devfail": "device refuses the write"}.get(variant[3:], variant[3:])
    reg(file, "%s::%s" % (mod, variant), [prop] + extra_props, tier="quick" if quick else "thorough", flavour="model", timeout=timeout,
        support=MSUP, cost=2,
        what="%s handler, %s assertions; %s" % (mod, prop, geometry),
        bounds="all header fields (len, unique, nodeid, uid, gid, pid) and all %s symbolic; filesystem answer symbolic (errno 1..4095, 9 non-OS kinds, all result fields) for C01/C03, plain success for C02; buffer lengths concrete per instance; unwind 16" % s_desc,
        functions=SRV_FUNCS, stubs=stubs,
        assumptions=["handler entered directly with an arbitrary decoded InHeader (handle_message's preamble/dispatch is covered by the dispatcher harnesses)"],
        role="%s:%s" % (mod, prop), **kw)


STD_VARIANTS = ["c01", "c02", "c03", "c01_long", "c01_trunc", "c01_nospace", "c01_tiny", "c01_zero", "c01_devfail"]
for op in ["getattr", "setattr", "open", "opendir", "statfs", "release", "releasedir", "fsync", "fsyncdir", "flush", "getlk",
           "setlk", "setlkw", "access", "bmap", "poll", "fallocate", "lseek"]:
    for v in STD_VARIANTS:
        # every C02 decode check of the fixed-structure opcodes is cheap (~45 s): all in the quick tier
        q = (op in QUICK_OPS and v in ("c01", "c02", "c03")) or (op == "getattr") or v == "c02"
        reg_op(OPS_A, op, v, "request-structure bytes", quick=q)
for v in ["c01", "c02", "c01_trunc", "c01_long"]:
    reg_op(OPS_A, "forget_h", v, "body bytes", quick=v in ("c01", "c02"))
for v in ["interrupt_c01", "interrupt_c02", "destroy_c01", "destroy_c01_devfail", "destroy_c02", "destroy_c03",
          "notify_reply_c01", "notify_reply_c02", "notify_reply_c03"]:
    prop = "C0" + v.split("_c0")[1][0]
    reg(OPS_A, "misc_h::" + v, [prop], tier="thorough", flavour="model", timeout=900, support=MSUP, cost=2,
        what="INTERRUPT/DESTROY/NOTIFY_REPLY shapes (%s)" % v, bounds="header and 8 body bytes symbolic", functions=SRV_FUNCS, stubs=SRV_STUBS,
        role="misc:%s" % v)
for v in ("c03_inval_entry", "c03_inval_inode", "c03_resend"):
    reg(OPS_A, "notify_h::" + v, ["C03"], tier="quick" if v == "c03_inval_entry" else "thorough", flavour="model", timeout=900, support=MSUP, cost=1,
        what="notification message " + v[4:], bounds="u64 arguments symbolic; name fixed (abc)", functions=["Server::notify_inval_entry/notify_inval_inode/notify_resend", "FuseDevWriter split_at(0)/write_obj/commit (model)"],
        stubs=SRV_STUBS, role="notify:" + v)
for mod in ("readlink", "listxattr"):
    for v in ["c01", "c02", "c03", "c03_len0", "c03_len8", "c01_nospace"] + (["c01_devfail"] if mod == "readlink" else ["c01_trunc"]):
        reg_op(OPS_A, mod, v, "request bytes; reply payload of 0/3/8 symbolic bytes (length concrete per instance) or a count", quick=False)

OPS_B = "harness/model/srvsync__ops_b.rs"
NVARIANTS = ["c01", "c02", "c02_l8", "c01_lenhigh", "c01_noname", "c01_badname_tiny",
             "c01_ans", "c03", "c01_nospace", "c01_tiny", "c01_devfail"]
QUICK_B = {("lookup", "c01"), ("lookup", "c02"), ("lookup", "c03"), ("create", "c01_ans"), ("create", "c02"), ("create", "c03"),
           ("rename2", "c02"), ("symlink", "c01"), ("mknod", "c03"), ("mkdir", "c01_lenhigh")}
NDESC = ("structure bytes symbolic; name area 4 (c02_l8: 8) bytes: symbolic (any content: names of length 0..3, interior/missing NUL) "
         "with a plain success answer in c01/c02/c01_len*/c01_noname/c01_badname_tiny, fixed name with a symbolic answer in c01_ans/c03/"
         "c01_nospace/c01_tiny/c01_devfail (the product exceeded 16 GB); in_header.len concrete per instance")
for op in ["lookup", "mknod", "mkdir", "unlink", "rmdir", "link", "create", "removexattr", "symlink", "rename", "rename2"]:
    for v in NVARIANTS:
        reg_op(OPS_B, op, v, NDESC, quick=(op, v) in QUICK_B,
               stubs=SRV_STUBS + ["CStr::from_bytes_with_nul -> std's body with memchr replaced by a naive first-NUL loop (std's word-at-a-time memchr depends on pointer alignment)"])
for v in ["c03_minor3", "c03_minor4"]:
    reg(OPS_B, "lookup_neg::" + v, ["C03"], tier="quick", flavour="model", timeout=900, support=MSUP, cost=2,
        what="LOOKUP negative-entry rule for protocol minor %s" % v[-1], bounds="entry fully symbolic; minor concrete", functions=SRV_FUNCS + ["Server.vers (ArcSwap)"], stubs=SRV_STUBS, role="lookup_neg:C03")
for v in ["c01", "c02", "c02_l8", "c01_lenhigh", "c01_ans", "c03", "c03_len0", "c03_len8", "c03_count", "c01_nospace", "c01_devfail"]:
    reg_op(OPS_B, "getxattr_h", v, "structure + 4 (8) name bytes; value of 0/3/8 symbolic bytes (length concrete per instance) or a count; " + NDESC, quick=v in ("c02", "c03"))
for v in ["c01", "c02", "c02_l8", "c01_lenhigh", "c01_ans", "c03", "c01_tiny", "c01_devfail"]:
    reg_op(OPS_B, "setxattr_h", v, "structure + 5 (8) bytes of name NUL value (every split); " + NDESC, quick=v in ("c01", "c02"))

for fn in ("c01_get_message_body_underflow", "c01_get_message_body_exact"):
    reg(OPS_B, fn, ["C01"], tier="quick", flavour="model", timeout=600, support=MSUP, cost=1,
        what="ServerUtil::get_message_body: header length vs fixed part", bounds="in_header.len over all u32 below 40+sub (sub <= 4096) / consistent lengths with <= 8 body bytes",
        functions=["ServerUtil::get_message_body"], stubs=[STUB_FMT], role=fn)
OPS_C = "harness/model/srvsync__ops_c.rs"
C_FAM = {
 "read_h": ["c01", "c02", "c03", "c03_len3", "c01_trunc", "c01_nospace", "c01_hdronly", "c01_tiny", "c01_devfail"],
 "write_h": ["c01", "c02", "c02_nopayload", "c02_p3", "c03", "c01_trunc", "c01_nospace", "c01_tiny", "c01_devfail"],
 "readdir_h": ["c01", "c01_symsize_empty", "c02", "c03", "c03_sz63", "c03_sz31", "c03_sz0", "c03_name8", "c03_name1_n3", "c03_name0", "c03_empty", "c01_empty",
               "c01_trunc", "c01_oversize", "c01_tiny", "c01_hdronly", "c01_devfail"],
 "readdirplus_h": ["c01", "c02", "c03", "c03_sz159", "c03_two", "c03_empty", "c01_devfail"],
 "dirent_step_h": ["c03_k0_n0", "c03_k0_n1", "c03_k1_n3", "c03_k2_n7", "c03_k1_n8", "c03_plus_k0_n3", "c03_plus_k1_n8", "c03_plus_k2_n1"],
 "ioctl_h": ["c01", "c02", "c02_noin", "c03", "c03_nodata", "c01_insize_over", "c01_insize_max", "c01_nospace", "c01_devfail"],
 "batch_forget_h": ["c01", "c01_e0", "c02", "c02_e1"],
}
C_DESC = {
 "read_h": "read_in bytes symbolic; filesystem produces 8 (c03_len3: 3) symbolic bytes if the client asked for at least that many, through the real split-writer path",
 "write_h": "write_in bytes and 8/3/0 payload bytes symbolic; payload read by the filesystem through ZeroCopyReader; returned count symbolic (u32)",
 "readdir_h": "read_in bytes symbolic (size, offset, fh); 0..3 entries offered with names of 0/1/3/8 symbolic bytes, ino/off/type symbolic; entry count, name length and requested size concrete per instance (boundary sizes; all sizes are covered per step by dirent_step_h); entries combined with a success answer, the symbolic error answer with an empty listing (c03_empty/c01_empty)",
 "readdirplus_h": "as readdir with a fully symbolic Entry per dirent; 1-2 entries",
 "ioctl_h": "ioctl_in bytes symbolic except in_size (enumerated: exact, 0, present+1, u32::MAX); 4 input and 0/4 output bytes symbolic",
 "dirent_step_h": "add_dirent as ONE step from a cursor holding 0/1/2 whole entries: limit `max` symbolic over all u32, name bytes/ino/off/type and the Entry symbolic; name length 0/1/3/7/8 concrete",
 "batch_forget_h": "count field symbolic over all u32 (C01) with 0/2 records present; 1/3 fully symbolic records (C02)",
}
QUICK_C = {("read_h", "c01"), ("read_h", "c02"), ("read_h", "c03"), ("write_h", "c02"), ("write_h", "c03"), ("readdir_h", "c01"), ("readdir_h", "c03"),
           ("readdirplus_h", "c03"), ("readdir_h", "c03_empty"), ("dirent_step_h", "c03_k1_n3"), ("dirent_step_h", "c03_plus_k1_n8"), ("readdir_h", "c03_sz63"), ("ioctl_h", "c01_insize_max"), ("batch_forget_h", "c01"), ("batch_forget_h", "c02"), ("readdir_h", "c01_tiny")}
for mod, vs in C_FAM.items():
    for v in vs:
        reg_op(OPS_C, mod, v, C_DESC[mod], quick=(mod, v) in QUICK_C, timeout=900,
               extra_props=["C16"] if (mod in ("dirent_step_h", "readdir_h", "readdirplus_h") and v.startswith("c03")) else [])

DISP = "harness/model/srvsync__dispatch.rs"
DISP_OPS = """lookup forget getattr setattr readlink symlink mknod mkdir unlink rmdir rename link open read write statfs release
fsync setxattr getxattr listxattr removexattr flush init opendir readdir releasedir fsyncdir getlk setlk setlkw access create
interrupt bmap destroy ioctl poll batch_forget fallocate readdirplus rename2 lseek notify_reply
op0 op7 op19 op47 op48 op49 op50 op_bswap op_max""".split()
QUICK_D = {("setlkw", "c02"), ("forget", "c01_oversize"), ("op19", "c01"), ("getattr", "c01"), ("rename2", "c02"), ("batch_forget", "c01_oversize"),
           ("create", "c01_oversize")}
DISP_FUNCS = ["Server::handle_message (header decode, remap_ctx_ids, oversize rule, 47-arm dispatch)", "SrvContext::new", "Context::from(&InHeader)",
              "the dispatched handler on a minimal body", "reply_ok/do_reply_error"]
for op in DISP_OPS:
    for v in ("c01", "c02", "c01_oversize"):
        reg(DISP, "%s::%s" % (op, v), [PROP_OF[v[:3]]], tier="quick" if (op, v) in QUICK_D else "thorough", flavour="model",
            timeout=900, support=MSUP, cost=5, mem=14,
            what="handle_message dispatch of opcode %s (%s)" % (op, {"c01": "reply rule", "c02": "operation, caller ids, node id, id translation", "c01_oversize": "in_header.len beyond 1 MiB + 4 KiB"}[v]),
            bounds="opcode concrete; unique, nodeid, uid, gid, pid, padding symbolic; in_header.len symbolic for body-less opcodes, exact otherwise, or oversize; body = minimal well-formed constant",
            functions=DISP_FUNCS, stubs=SRV_STUBS + ["CStr::from_bytes_with_nul -> naive first-NUL loop"], role="dispatch:%s:%s" % (op, v))
for v in ("c01_len0", "c01_len39"):
    reg(DISP, "short::" + v, ["C01"], tier="quick" if v.endswith("39") else "thorough", flavour="model", timeout=900, support=MSUP, cost=5, mem=14,
        what="request shorter than the in-header", bounds="all bytes symbolic", functions=DISP_FUNCS, stubs=SRV_STUBS, role="dispatch:short")

INIT = "harness/model/srvsync__init.rs"
for v, q in [("c12_major_low", True), ("c12_major_high", True), ("c12_v7_legacy", True), ("c12_v7_ext", True), ("c12_v7_ext_partial", False),
             ("c12_v7_fs_fails", False), ("c12_v7_devfail", False), ("c12_v7_nospace", False)]:
    reg(INIT, "init_h::" + v, ["C12"], tier="quick" if q else "thorough", flavour="model", timeout=900, support=MSUP, cost=3,
        what="Server::init (%s)" % v,
        bounds="major (within its class), minor, max_readahead, flags, flags2 and the filesystem's wanted option word all symbolic (full width); payload presence 16/40/64 bytes concrete",
        functions=["Server::init", "FsOptions::from_bits_truncate", "reply_ok/do_reply_error", "Server.vers (ArcSwap model)"],
        stubs=SRV_STUBS + ["pagesize() = 4096 (model transport)", "arc-swap replaced by its sequential specification (models/arc-swap-seq)"], role="init:" + v)


# ============================================================================ VFS harnesses (real overlay)
VFS = "harness/real/vfs__core.rs"
VSUP = ["harness/real/pseudo__mk.rs"]
VFS_STUBS = [STUB_TC, STUB_FMT, "std::hash::RandomState::new -> fixed keys (hash KEYS stay concrete in every harness)",
             "arc-swap replaced by its sequential specification (models/arc-swap-seq)",
             "scripted recording backends behind the real Box<dyn BackendFileSystem> dispatch"]
VFS_ASSUME = ["Vfs constructed directly (struct literal): backends at index 1 and 7, every other slot vacant, 8-entry tables (crate: 256; only indices < 8 are used, chosen by branching among mounted A / mounted B / vacant); no mount/umount history, no path walking (PseudoFs::mount uses std::path parsing)",
              "id mappings are ranges inside the 32-bit id space (from+range, to+range <= 2^32)"]


def reg_vfs(fn, props, quick=True, timeout=1500, what="", bounds="", functions=None, unwind=None):
    reg(VFS, fn, props, tier="quick" if quick else "thorough", flavour="real", timeout=timeout, timeout_thorough=2400, support=VSUP, cost=2,
        mem=24 if "link" in fn else 12,
        what=what, bounds=bounds, functions=functions or [], stubs=VFS_STUBS, assumptions=VFS_ASSUME, role=fn,
        unwindset={"std::sync::Arc::<api::pseudo_fs::PseudoInode>::drop_slow": 1})


reg(VFS, "c14_remap_id_all", ["C14"], flavour="real", timeout=300, support=VSUP, unwindset_ioerr=False,
    what="remap_id over all (value, from, to, range)", bounds="4 x u32 fully symbolic under the range precondition", functions=["api::vfs::remap_id"],
    assumptions=["from+range <= 2^32 and to+range <= 2^32 (a mapping is a pair of ranges inside the id space)"])
reg(VFS, "c07_inode_pack", ["C07"], flavour="real", timeout=300, support=VSUP, unwindset_ioerr=False,
    what="VfsInode pack/unpack", bounds="index u8, inode <= 2^56-1 symbolic", functions=["VfsInode::{new,fs_idx,ino,is_pseudo_fs}", "From<u64>/Into<u64>"])
reg_vfs("c07_convert_inode", ["C07"], what="convert_inode for all (index, inode)", bounds="index u8 and inode u64 symbolic", functions=["Vfs::convert_inode"])
for v in ("a", "b", "vacant"):
    reg_vfs("c07_route_setattr_" + v, ["C07"], quick=v != "b", what="routing of an inode at index %s (SETATTR)" % v, bounds="index concrete (mounted A=1 / mounted B=7 / vacant 3), 56 backend inode bits and backend answer symbolic",
            functions=["Vfs::setattr", "Vfs::get_real_rootfs", "Vfs::get_fs_by_idx", "Vfs::convert_attr"])
for v in ("b", "vacant"):
    reg_vfs("c07_rootmnt_route_setattr_" + v, ["C07"], quick=False, what="routing of an inode at index %s while backend A is ALSO mounted on the VFS root (SETATTR)" % v,
            bounds="index concrete (mounted B=7 / vacant 3), 56 backend inode bits (including 1 = ROOT_ID) and backend answer symbolic; root mount of A present",
            functions=["Vfs::setattr", "Vfs::get_real_rootfs (root special case only for pseudo-fs inodes)", "Vfs::get_fs_by_idx", "Vfs::convert_attr"])
for v in ("a", "vacant"):
    reg_vfs("c07_route_getattr_" + v, ["C07"], quick=False, what="GETATTR wiring at index %s (fixed backend inode)" % v, bounds="backend inode fixed (5); backend answer symbolic",
            functions=["Vfs::getattr", "Vfs::get_real_rootfs", "Vfs::convert_attr"])
for v in ("a", "b"):
    reg_vfs("c07_route_mkdir_" + v, ["C07"], quick=v == "b", what="entry re-numbering through backend %s (MKDIR)" % v, bounds="56 parent inode bits and returned Entry symbolic",
            functions=["Vfs::mkdir", "Vfs::convert_backend_entry", "Vfs::convert_entry", "Vfs::convert_inode"])
reg_vfs("c07_route_lookup_b", ["C07"], quick=False, what="LOOKUP wiring through backend B (fixed parent inode)", bounds="parent inode fixed (5); returned Entry symbolic",
        functions=["Vfs::lookup", "Vfs::convert_backend_entry"])
for v in ("c07_cross_rename_ab", "c07_cross_link_ba", "c07_same_rename_aa", "c07_same_link_bb"):
    reg_vfs(v, ["C07"], quick=v in ("c07_cross_rename_ab", "c07_same_link_bb"), what="rename/link across or within mounts", bounds="both inodes symbolic; mount pair concrete", functions=["Vfs::rename", "Vfs::link"])
reg_vfs("c07_root_mount", ["C07"], quick=False, what="mount on the VFS root", bounds="concrete", functions=["Vfs::get_real_rootfs root special case", "Vfs::access"])
for v, q in (("c07_rootmnt_rename_same", True), ("c07_rootmnt_rename_other_mount", False), ("c07_rootmnt_rename_pseudo_dir", True), ("c07_rootmnt_link_same_rev", False)):
    reg_vfs(v, ["C07"], quick=q, what="two-directory operation naming the VFS root under a root mount", bounds="root mount of backend A; the other directory: 56 symbolic bits in A / in B / pseudo directory 2",
            functions=["Vfs::rename", "Vfs::link", "Vfs::get_real_rootfs (root-mount resolution)"])
for i, op in enumerate(["lookup", "getattr", "setattr", "mkdir", "mknod", "symlink", "link", "create", "readdirplus"]):
    for v in ("a", "b"):
        reg_vfs("c14_path_%s_%s" % (op, v), ["C14"], quick=(op, v) in (("lookup", "a"), ("setattr", "a"), ("setattr", "b"), ("readdirplus", "b"), ("mkdir", "a"), ("getattr", "b")),
                what="%s through backend %s (A has its own mapping or none, B falls back to the global one)" % (op, v),
                bounds="global and per-mount mapping (or none) symbolic; caller uid/gid, owner ids in the request and in the backend's answer symbolic; mount concrete",
                functions=["Vfs::%s" % op, "Vfs::id_remap_with_nodeid", "get_effective_id_mapping", "remap_id", "convert_entry/convert_attr/remap_attr_id"])
MOUNT_STUB = ["PseudoFs::mount -> returns a fixed pseudo directory inode (2): std::path parsing and the pseudo inode HashMap are environment for the mount step"]
UW_PI = {"std::sync::Arc::<api::pseudo_fs::PseudoInode>::drop_slow": 1}
reg(VFS, "c14_mount_step", ["C14", "C07"], tier="quick", flavour="real", timeout=800, timeout_thorough=2400, support=VSUP, cost=3, mem=16,
    what="ONE Vfs::mount_with_id_mapping step from a state whose vacant target slot may still carry ANY stale per-mount mapping",
    bounds="8-entry tables, allocator at the vacant slot 3; global, A's, the stale and the new mount's own mapping (or none) all symbolic; backend root inode and largest inode symbolic",
    functions=["Vfs::mount_with_id_mapping", "Vfs::allocate_fs_idx", "Vfs::get_effective_id_mapping"],
    stubs=VFS_STUBS + ["Vfs::insert_mount_locked -> recorder capturing (index, root inode, effective mapping at insertion time); the real function is decided by c14_insert_mount_*"],
    assumptions=VFS_ASSUME + ["pre-state: the slot to be allocated is vacant but may carry any mapping (reachable through an over-mount; findings/c14_slot_reuse_demo.rs shows the history natively)"],
    role="c14_mount_step", unwindset=UW_PI)
for v in ("fresh", "over"):
    reg(VFS, "c14_insert_mount_" + v, ["C14", "C07"], tier="thorough", flavour="real", timeout=1500, timeout_thorough=3000, support=VSUP, cost=4, mem=20,
        what="Vfs::insert_mount_locked (%s): slot registration, over-mount vacating, mount root cached with translated owner ids" % ("mount path free" if v == "fresh" else "over-mounting backend A"),
        bounds="8-entry tables; global and the slot's own mapping (or none), root inode and owner ids symbolic; mount-point key concrete (2)",
        functions=["Vfs::insert_mount_locked", "Vfs::convert_entry", "Vfs::get_effective_id_mapping", "remap_id", "HashMap<u64, Arc<MountPointData>>::{clone, get, insert}"],
        stubs=VFS_STUBS + MOUNT_STUB, assumptions=VFS_ASSUME, role="c14_insert_mount_" + v, unwindset=UW_PI)
reg(VFS, "c07_allocate_idx", ["C07"], tier="thorough", flavour="real", timeout=800, timeout_thorough=2400, support=VSUP, cost=3, mem=16,
    what="Vfs::allocate_fs_idx as one step across the index wrap-around", bounds="full 256-entry table; allocator at 253; occupancy of slots 253,254,255,1,2,3,4 symbolic (2^7 patterns), slot 5 vacant; unwind 260",
    functions=["Vfs::allocate_fs_idx"], stubs=VFS_STUBS, assumptions=["allocator position concrete (253): a symbolic position ran out of memory at 16 GB"],
    role="c07_allocate_idx", unwindset=UW_PI)
reg_vfs("c07_rootmnt_rename_concrete", ["C07"], quick=False, timeout=850, what="rename between the VFS root and (A,5) / pseudo directory 2 / (B,4) under a root mount of A", bounds="concrete inodes", functions=["Vfs::rename", "Vfs::get_real_rootfs"])
reg_vfs("c07_rootmnt_b_ino1", ["C07"], quick=True, timeout=850, what="under a root mount of A, inode (B, ROOT_ID) is delivered to B and the VFS root to A's root", bounds="concrete inodes", functions=["Vfs::access", "Vfs::get_real_rootfs"])
reg_vfs("c14_effective_mapping", ["C14"], what="effective mapping for every index", bounds="index u8, three mappings symbolic", functions=["Vfs::get_effective_id_mapping"])
reg_vfs("c12_vfs_init", ["C12"], what="Vfs::init option algebra, second INIT", bounds="no_open/no_opendir/no_writeback/killpriv_v2 switches, offered and client option words all symbolic",
        functions=["<Vfs as FileSystem>::init", "Vfs::options"])
reg_vfs("c12_vfs_open_mode", ["C12"], what="OPEN/OPENDIR answered ENOSYS iff no-open/no-opendir", bounds="both switches symbolic", functions=["Vfs::open", "Vfs::opendir"])
reg(VFS, "c06_name_predicates", ["C06"], flavour="real", timeout=300, support=VSUP, unwindset_ioerr=False,
    what="name predicates for all names of <= 3 bytes", bounds="length 0..3 and every byte symbolic (non-NUL)", functions=["is_safe_path_component", "validate_path_component", "is_dot_or_dotdot"])
for op in ["symlink", "mknod", "mkdir", "unlink", "rmdir", "rename_old", "rename_new", "link", "create", "lookup"]:
    reg_vfs("c06_vfs_" + op, ["C06"], quick=op in ("mkdir", "rename_new", "lookup", "unlink"),
            what="VFS %s rejects bad names before any backend" % op, bounds="name of <= 3 symbolic bytes", functions=["Vfs::%s" % op.split("_")[0], "validate_path_component"])


# ============================================================================ passthrough kernels (real overlay)
PTP = "harness/real/ptsync__pure.rs"
for fn, q in [("c18_seal_write", True), ("c18_seal_fallocate", True), ("c18_seal_other_opcodes", True)]:
    reg(PTP, fn, ["C18"], flavour="real", timeout=600, tier="quick", cost=1,
        what="seal_size_check: soundness and completeness", bounds="file_size, offset, size: u64 and mode: i32 fully symbolic",
        functions=["PassthroughFs::seal_size_check"], stubs=[STUB_FMT],
        assumptions=["&self is never read by seal_size_check: an uninitialised instance is passed"], role=fn)
reg(PTP, "c16_last_cookie_arbitrary", ["C16"], flavour="real", timeout=600, unwindset_ioerr=False,
    what="last_cookie_in_buf on arbitrary bytes", bounds="buffer of <= 72 arbitrary bytes, length symbolic; <= 3 records (unwind 6)", functions=["PassthroughFs::last_cookie_in_buf"], role="c16_last_cookie")
reg(PTP, "c16_skip_to_cookie_chain", ["C16"], flavour="real", timeout=900, unwindset_ioerr=False,
    what="skip_to_cookie on a well-formed 3-record chain", bounds="record lengths 24/32/24 concrete; every other byte (d_ino, d_off, type, names) and the cookie symbolic",
    functions=["PassthroughFs::skip_to_cookie"], assumptions=["getdents64 buffers come from the host kernel: record lengths are well-formed"], role="c16_skip")
# c16_cookie_cache_step / c16_cache_cookie_records_last (HandleMap's HashMap<Handle,u64>) exist in the
# harness file but are NOT registered: hashbrown insert/remove did not finish in 900 s (see DESIGN.md).


# harness/real/pt__forget.rs (C08: PassthroughFs::forget_one as one step on a one-element InodeStore) exists but is NOT
# registered: all three instances timed out at 800 s -- CBMC cannot establish that the BTreeMap has height 0 and unrolls the
# internal-node paths (split, correct_childrens_parent_links) at every insert/search/remove. C08 stays not_applicable.


# ============================================================================ transport IoBuffers (real overlay): C04 / C17
IOB = "harness/real/transport__iobuf.rs"
IOB_FUNCS = ["transport::IoBuffers::{consume, consume_for_read, allocate_file_volatile_slice, mark_used, mark_dirty, available_bytes, bytes_consumed, split_at}",
             "FileVolatileSlice::from_volatile_slice", "VolatileSlice::{subslice, offset}"]
for fn, q in [("c04_consume_8_8", True), ("c04_consume_1_8", True), ("c04_consume_8_1", False), ("c04_consume_0_8", True), ("c04_consume_8_0", False)]:
    reg(IOB, fn, ["C04"], flavour="real", tier="quick" if q else "thorough", timeout=900, mem=16,
        what="IoBuffers consume geometry/accounting on two segments (%s)" % fn[12:], bounds="segment lengths concrete; count, consumed k and consumer failure symbolic",
        functions=IOB_FUNCS, stubs=[STUB_FMT], role=fn)
FBB = "harness/real/filebuf__bytes.rs"
for fn, q in [("c04_filebuf_read_slice", True), ("c04_filebuf_write_slice", True), ("c04_filebuf_read", True), ("c04_filebuf_write", False),
              ("c04_filebuf_load_store", False), ("c04_filebuf_geometry", True), ("c04_filebuf_buf_views", True)]:
    reg(FBB, fn, ["C04"], flavour="real", tier="quick" if q else "thorough", timeout=600, mem=12, unwindset_ioerr=False,
        what="FileVolatileSlice/FileVolatileBuf as a plain view: %s, differentially against vm_memory::VolatileSlice over a twin array and against the plain-array meaning" % fn[12:],
        bounds="8 bytes of adapter memory and a 4-byte caller buffer, all symbolic; addr over all usize, length 0..4 symbolic; unwind 10",
        functions=["<FileVolatileSlice as Bytes<usize>>::{read, write, read_slice, write_slice, load, store}", "FileVolatileSlice::{from_raw_ptr, offset, len, as_ptr, as_volatile_slice, from_volatile_slice, borrow_as_buf}",
                   "FileVolatileBuf::{new_with_data, io_slice, io_slice_mut, set_size, len, cap}", "vm_memory::VolatileSlice::{read,write,read_slice,write_slice,load,store} (the callee)"],
        stubs=[STUB_FMT], role=fn)
FDW = "harness/real/fusedev__writer.rs"
FDW_FUNCS = ["transport::fusedev::FuseDevWriter::{new, split_at, commit, bytes_written, available_bytes, account_written, check_available_space, do_write, write_from, write_from_at, write_all_from}",
             "<FuseDevWriter as std::io::Write>::{write, write_vectored}", "FileVolatileSlice::from_raw_ptr", "<&mut F as FileReadWriteVolatile>::{read_vectored_volatile, read_vectored_at_volatile}"]
FDW_STUBS = [STUB_FMT, "nix::unistd::write / nix::sys::uio::writev -> ghost device recording every call (bytes, call count, fd), may refuse or accept short (symbolic)",
             "scripted FileReadWriteVolatile source producing a symbolic number of symbolic bytes"]
for fn, q, props in [("c04_fdw_vectored_5_5", True, ["C04"]), ("c04_fdw_vectored_3_5", True, ["C04"]), ("c04_fdw_vectored_8_1", False, ["C04"]), ("c04_fdw_vectored_0_8", False, ["C04"]),
              ("c04_fdw_split4", True, ["C04", "C01"]), ("c04_fdw_split0", False, ["C04", "C01"]), ("c04_fdw_split12", False, ["C04", "C01"]), ("c04_fdw_split_edges", True, ["C04"]),
              ("c04_fdw_unbuffered_write", True, ["C04", "C01"]), ("c04_fdw_unbuffered_vectored", True, ["C04", "C01"]),
              ("c04_fdw_write_from_buffered", True, ["C04"]), ("c04_fdw_write_from_at_buffered", True, ["C04"]), ("c04_fdw_write_from_unbuffered", False, ["C04"]),
              ("c04_fdw_write_from_at_unbuffered", True, ["C04"])]:
    # c04_fdw_write_all_from_g{0,3,8} exist in the harness file but are NOT registered: the retry loop with io::Error
    # paths in every iteration produced 10 M SAT variables and ran out of memory at 32 GB even with a concrete chunk size.
    reg(FDW, fn, props, flavour="real", tier="quick" if q else "thorough", timeout=900, mem=16,
        what="the REAL FuseDevWriter over a borrowed 12-byte buffer with canaries: " + fn[8:],
        bounds="buffer 12 bytes, split offset concrete (0/4/12, nested 8 then 2); all data bytes, all write lengths (0..6/0..4+0..4/0..5, unbuffered 0..8+0..6), file-transfer count (all usize), bytes produced (0..8), device refusal / short acceptance symbolic",
        functions=FDW_FUNCS, stubs=FDW_STUBS, role=fn)
# c04_split_* and c17_dirty_split_* exist in the harness file but are NOT registered: IoBuffers::split_at
# (VecDeque::split_off + pop/push) ran out of memory at 24 GB for every offset tried (see DESIGN.md).
for fn, q in [("c17_dirty_write_8_8", True), ("c17_dirty_write_3_8", True), ("c17_dirty_read_8_8", True), ("c17_dirty_write_0_8", True), ("c17_dirty_write_8_0", False),
              ("c17_dirty3_4_0_4", True), ("c17_dirty3_3_2_4", False)]:
    reg(IOB, fn, ["C17"], flavour="real", tier="quick" if q else "thorough", timeout=900, mem=24,
        what="dirty marking of IoBuffers::consume with a recording BitmapSlice", bounds="two (dirty3: three) segments of concrete lengths, possibly empty, with distinct bitmap bases; count, written k, failure and the probed guest byte symbolic",
        functions=IOB_FUNCS + ["vm_memory::Bitmap::mark_dirty via VolatileSlice::bitmap()"], stubs=[STUB_FMT, "RecBitmap: harness BitmapSlice that records mark_dirty(offset,len) relative to a base"], role=fn)


# ============================================================================ C20 sync vs async
# harness/model/srvasync__c20.rs exists (feature async-io builds under Kani) but is NOT registered: every instance
# timed out at 1500 s -- the drop glue of the boxed `dyn Future`s / async bodies forms recursion cycles that CBMC
# unrolls to the bound even with three of them limited by --unwindset (see DESIGN.md C20).
