"""Harness registry: which Kani harness decides which property, in which overlay flavour, with
which bounds / stubs / assumptions (the texts go into the evidence files verbatim)."""
import os
import re

GEN_INFO = {}

ATTACH_MOD = {
    "lib": "", "transport": "transport", "fusedev": "transport::fusedev",
    "virtiofs": "transport::virtiofs", "server": "api::server", "srvsync": "api::server::sync_io",
    "vfs": "api::vfs", "pseudo": "api::pseudo_fs", "pt": "passthrough", "ptsync": "passthrough::sync_io",
    "filebuf": "common::file_buf", "abi": "abi::fuse_abi", "fsmod": "api::filesystem",
    "vfssync": "api::vfs::sync_io",
}

H = []

STUB_TC = "std::rt::thread_cleanup -> no-op (Kani ICE work-around, no semantic content)"
STUB_FMT = "std::fmt::format -> empty String (log/format! text is never the subject)"
MODEL = ("MODEL TRANSPORT: src/transport/{mod.rs,fusedev,virtiofs} replaced by /verif/models/transport.rs "
         "(flat request buffer, FuseDevWriter mirrored line by line, write(2)/writev(2) -> ghost device); "
         "validated by running the repository's own api::server and fusedev writer tests against it")


def fqn(file, fn):
    base = os.path.basename(file)
    if base.startswith("GEN:"):
        base = base[4:]
    attach, _, rest = base.partition("__")
    mod = ATTACH_MOD[attach]
    return "::".join([x for x in (mod, "verif_" + rest[:-3], fn) if x])


def reg(file, fn, props, tier="quick", flavour="real", timeout=600, timeout_thorough=None, mem=12,
        support=(), features=None, cost=1, **kw):
    files = [file] + list(support)
    if features is None and flavour == "real":
        features = ["fusedev", "virtiofs"]
    d = dict(fqn=fqn(file, fn), fn=fn, files=files, props=list(props), tier=tier, flavour=flavour,
             timeout=timeout, timeout_thorough=timeout_thorough or max(timeout, 3600), mem=mem,
             features=features, cost=cost)
    d.update(kw)
    H.append(d)
    return d


def select(pid, tier):
    out = []
    for h in H:
        if pid not in h["props"]:
            continue
        if tier == "quick" and h["tier"] != "quick":
            continue
        out.append(dict(h))
    return out


TAG = re.compile(r"\[(C\d+)\]")


def attributed(failure, h, pid):
    """does this failing check count against property `pid`?"""
    tags = TAG.findall(failure["desc"])
    if tags:
        return pid in tags
    # untagged = Kani's automatic checks (panic, overflow, index, pointer validity) or a harness
    # sanity assertion; they belong to the harness's primary property
    return h["props"][0] == pid


def finding_key(h, failures):
    """role-based key for known findings: harness role + sorted assertion texts' tags"""
    role = h.get("role", h["fn"])
    descs = sorted(set(re.sub(r"\s+", " ", f["desc"]) for f in failures))
    first = descs[0] if descs else ""
    return "%s:%s" % (role, first[:80])


def assumptions_for(pid, hs):
    out = set()
    for h in hs:
        for a in h.get("assumptions", []) or []:
            out.add(a)
        for s in h.get("stubs", []) or []:
            out.add("stub: " + s)
        if h["flavour"].startswith("model"):
            out.add(MODEL)
    out.add("bounded: every claim is for all inputs within the bounds listed per harness; nothing is claimed outside them")
    return sorted(out)


# ============================================================================ C13
C13_GEN = "harness/real/GEN:abi__c13_gen.rs"
C13_STRUCTS = """AccessIn Attr AttrOut BatchForgetIn BmapIn BmapOut CopyFileRangeIn CreateIn Dirent Direntplus
EntryOut FallocateIn FileLock FlushIn ForgetIn ForgetOne FsyncIn GetattrIn GetxattrIn GetxattrOut InHeader
InitIn InitIn2 InitOut InterruptIn IoctlIn IoctlIovec IoctlOut Kstatfs LinkIn LkIn LkOut LseekIn LseekOut
MkdirIn MknodIn NotifyDeleteOut NotifyInvalEntryOut NotifyInvalInodeOut NotifyPollWakeupOut NotifyRetrieveIn
NotifyStoreOut Notify_Retrieve_Out OpenIn OpenOut OutHeader PollIn PollOut ReadIn ReleaseIn RemovemappingIn
RemovemappingOne Rename2In RenameIn SetattrIn SetupmappingIn SetxattrIn StatfsOut WriteIn WriteOut""".split()
for s in C13_STRUCTS:
    reg(C13_GEN, "c13_layout_" + s, ["C13"], unwindset_ioerr=False, timeout=300,
        what="decode a symbolic byte image of %s with ByteValued::from_slice; every scalar field equals the "
             "little-endian integer at the kernel's offset/width (C compiler's offsetof/sizeof on linux/fuse.h); "
             "as_slice round-trips" % s,
        bounds="all 2^(8*size) byte images of the structure; no loops except the byte-compare (unwind size+2)",
        functions=["%s: ByteValued::from_slice/as_slice" % s])
for i in range(5):
    reg(C13_GEN, "c13_consts_%d" % i, ["C13"], unwindset_ioerr=False, timeout=300,
        what="crate constants/enumerators/bitflags members equal the header's values (block %d)" % i,
        bounds="constants: decided by constant propagation", functions=["abi::fuse_abi constants", "Opcode", "NotifyOpcode", "FsOptions", "OpenOptions", "SetattrValid", "IoctlFlags"])
reg("harness/real/abi__c13_opcode.rs", "c13_opcode_total", ["C13"], unwindset_ioerr=False, timeout=300,
    what="Opcode::from(x) for all 2^32 x", bounds="x: u32 fully symbolic", functions=["Opcode::from"])
for fn in ("c13_stat_to_attr", "c13_attr_to_stat_roundtrip", "c13_setattr_in_to_stat", "c13_statvfs_to_kstatfs",
           "c13_filelock_both_ways"):
    reg("harness/real/abi__c13_conv.rs", fn, ["C13"], unwindset_ioerr=False, timeout=300,
        what="conversion preserves every wire-representable field", bounds="all field values symbolic (full width)",
        functions=["Attr::with_flags", "From<Attr> for stat64", "From<SetattrIn> for stat64", "From<statvfs64> for Kstatfs", "FileLock conversions"])
