#!/usr/bin/env python3
"""C13 oracle + harness generator.

1. parse /usr/include/linux/fuse.h for struct/enum/#define *names*;
2. generate a C probe, compile it with the system compiler against that header and run it:
   the COMPILER decides sizes, offsets, widths and constant values (the oracle);
3. parse /repo's ABI sources for #[repr(C)] structs, constants, enums (regenerated every run);
4. emit a Kani harness module: per structure a symbolic byte image is decoded with the crate's own
   ByteValued::from_slice and every leaf field is asserted equal to the little-endian integer at
   the kernel's offset/width; constants/enumerators are asserted equal to the header's values.
"""
import json
import os
import re
import subprocess

REPO = os.environ.get("VERIF_REPO", "/repo")
FUSE_H = "/usr/include/linux/fuse.h"

CT = {"uint64_t": 8, "int64_t": 8, "uint32_t": 4, "int32_t": 4, "uint16_t": 2, "int16_t": 2,
      "uint8_t": 1, "char": 1, "__u64": 8, "__u32": 4, "__u16": 2, "__u8": 1, "__s64": 8, "__s32": 4}
RT = {"u64": 8, "i64": 8, "u32": 4, "i32": 4, "u16": 2, "i16": 2, "u8": 1, "i8": 1}


def strip_comments(s):
    s = re.sub(r"/\*.*?\*/", " ", s, flags=re.S)
    s = re.sub(r"//[^\n]*", " ", s)
    return s


def parse_c_header(path):
    src = strip_comments(open(path).read())
    structs = {}
    for m in re.finditer(r"\bstruct\s+(\w+)\s*\{(.*?)\}\s*;", src, re.S):
        name, body = m.group(1), m.group(2)
        fields = []
        for decl in body.split(";"):
            decl = decl.strip()
            if not decl:
                continue
            mm = re.match(r"(struct\s+\w+|\w+)\s+(\w+)\s*(\[\s*(\w*)\s*\])?$", decl)
            if not mm:
                fields = None
                break
            ty, fname, arr, n = mm.group(1), mm.group(2), mm.group(3), mm.group(4)
            fields.append((ty.replace("struct ", "struct:").strip(), fname, None if not arr else (n or "")))
        if fields is not None:
            structs[name] = fields
    enums = {}
    for m in re.finditer(r"\benum\s+(\w+)\s*\{(.*?)\}\s*;", src, re.S):
        names = [x.strip().split("=")[0].strip() for x in m.group(2).split(",") if x.strip()]
        enums[m.group(1)] = names
    defines = []
    for m in re.finditer(r"^#define\s+(\w+)\s+(.+)$", src, re.M):
        name, val = m.group(1), m.group(2).strip()
        if "(" in name:
            continue
        if re.search(r"[A-Za-z_]\w*\s*\(", val) and not val.startswith("("):
            # function-like use (offsetof(...), _IOR(...)): still an integer constant, keep
            pass
        defines.append(name)
    return structs, enums, defines


def c_leaves(structs, sname, prefix=""):
    """ordered leaf designators of a C struct: (designator, ctype)"""
    out = []
    for ty, fname, arr in structs[sname]:
        if arr == "":
            continue  # flexible array member
        if ty.startswith("struct:"):
            inner = ty[7:]
            if inner not in structs:
                raise KeyError(inner)
            if arr is not None:
                for i in range(int(arr)):
                    out += c_leaves(structs, inner, "%s%s[%d]." % (prefix, fname, i))
            else:
                out += c_leaves(structs, inner, prefix + fname + ".")
        else:
            if arr is not None:
                for i in range(int(arr)):
                    out.append(("%s%s[%d]" % (prefix, fname, i), ty))
            else:
                out.append((prefix + fname, ty))
    return out


def run_c_oracle(scratch, structs, enums, defines):
    lines = ["#include <stdio.h>", "#include <stddef.h>", "#include <stdint.h>", "#include <sys/ioctl.h>",
             "#include <linux/fuse.h>", "int main(void){", 'printf("{\\"structs\\":{");']
    first = True
    usable = {}
    for s in sorted(structs):
        try:
            leaves = c_leaves(structs, s)
        except (KeyError, ValueError):
            continue
        usable[s] = leaves
        lines.append('printf("%s\\"%s\\":{\\"size\\":%%zu,\\"leaves\\":[", sizeof(struct %s));' % ("" if first else ",", s, s))
        first = False
        for i, (d, ty) in enumerate(leaves):
            lines.append('printf("%s[\\"%s\\",%%zu,%%zu]", offsetof(struct %s, %s), sizeof(((struct %s*)0)->%s));'
                         % ("" if i == 0 else ",", d, s, d, s, d))
        lines.append('printf("]}");')
    lines.append('printf("},\\"consts\\":{");')
    names = []
    for e in sorted(enums):
        names += enums[e]
    names += defines
    seen = set()
    k = 0
    for n in names:
        if n in seen or n.startswith("_"):
            continue
        seen.add(n)
        lines.append("#ifdef %s_PROBE_SKIP\n#else" % n)
        lines.append('printf("%s\\"%s\\":%%llu", (unsigned long long)(%s));' % ("" if k == 0 else ",", n, n))
        lines.append("#endif")
        k += 1
    lines.append('printf("}}\\n"); return 0;}')
    csrc = os.path.join(scratch, "oracle_abi.c")
    exe = os.path.join(scratch, "oracle_abi")
    open(csrc, "w").write("\n".join(lines))
    # names that are not integer constant expressions make the probe fail to compile; drop them
    for attempt in range(40):
        r = subprocess.run(["cc", "-o", exe, csrc], capture_output=True, text=True)
        if r.returncode == 0:
            break
        lns = sorted(set(int(x) for x in re.findall(r"oracle_abi\.c:(\d+):\d+: error", r.stderr)))
        if not lns:
            raise SystemExit("C oracle does not compile:\n" + r.stderr[:2000])
        src_lines = open(csrc).read().split("\n")
        for ln in lns:
            src_lines[ln - 1] = "/* dropped: not an integer constant expression here */"
        open(csrc, "w").write("\n".join(src_lines))
    else:
        raise SystemExit("C oracle does not compile")
    out = subprocess.run([exe], capture_output=True, text=True, check=True).stdout
    out = out.replace("{,", "{").replace(",,", ",")
    return json.loads(out), usable


# ---------------------------------------------------------------------------- Rust side
def parse_rust_structs(path):
    src = open(path).read()
    src_nc = re.sub(r"//[^\n]*", "", src)
    src_nc = re.sub(r"/\*.*?\*/", "", src_nc, flags=re.S)
    structs = {}
    for m in re.finditer(r"#\[repr\(C\)\]\s*(?:#\[[^\]]*\]\s*)*pub struct (\w+)\s*\{(.*?)\n\}", src_nc, re.S):
        name, body = m.group(1), m.group(2)
        fields = []
        for fm in re.finditer(r"pub\s+(\w+)\s*:\s*([^,\n]+)", body):
            fields.append((fm.group(1), fm.group(2).strip()))
        structs[name] = fields
    return structs, src_nc


def rust_leaves(structs, sname, prefix=""):
    out = []
    for fname, ty in structs[sname]:
        am = re.match(r"\[\s*(\w+)\s*;\s*(\d+)\s*\]", ty)
        if am:
            ety, n = am.group(1), int(am.group(2))
            for i in range(n):
                if ety in RT:
                    out.append(("%s%s[%d]" % (prefix, fname, i), ety))
                else:
                    out += rust_leaves(structs, ety, "%s%s[%d]." % (prefix, fname, i))
        elif ty in RT:
            out.append((prefix + fname, ty))
        elif ty in structs:
            out += rust_leaves(structs, ty, prefix + fname + ".")
        else:
            raise KeyError("%s.%s: %s" % (sname, fname, ty))
    return out


def snake(name):
    s = re.sub(r"(?<!^)(?=[A-Z])", "_", name.replace("_", "")).lower()
    return s


# Rust struct -> C struct where the automatic CamelCase->fuse_snake_case rule does not apply
STRUCT_MAP = {
    "Kstatfs": "fuse_kstatfs", "Direntplus": "fuse_direntplus", "Notify_Retrieve_Out": "fuse_notify_retrieve_out",
    "Rename2In": "fuse_rename2_in", "SetupmappingIn": "fuse_setupmapping_in",
    "RemovemappingIn": "fuse_removemapping_in", "RemovemappingOne": "fuse_removemapping_one",
}
# Rust struct that is a slice of a C struct: (C struct, first C leaf designator)
SLICE_MAP = {"InitIn": ("fuse_init_in", "major", 4), "InitIn2": ("fuse_init_in", "flags2", None)}

# Rust constant / enumerator -> C name, where "FUSE_" + NAME does not apply
CONST_MAP = {
    "KERNEL_VERSION": "FUSE_KERNEL_VERSION", "ROOT_ID": "FUSE_ROOT_ID",
    "Opcode::SetupMapping": "FUSE_SETUPMAPPING", "Opcode::RemoveMapping": "FUSE_REMOVEMAPPING",
    "Opcode::CuseInitBswapReserved": "CUSE_INIT_BSWAP_RESERVED", "Opcode::InitBswapReserved": "FUSE_INIT_BSWAP_RESERVED",
    "SetupmappingFlags::WRITE": "FUSE_SETUPMAPPING_FLAG_WRITE", "SetupmappingFlags::READ": "FUSE_SETUPMAPPING_FLAG_READ",
    "PERFILE_DAX": "FUSE_HAS_INODE_DAX", "FsOptions::PERFILE_DAX": "FUSE_HAS_INODE_DAX",
    "FOPEN_IN_KILL_SUIDGID": "FUSE_OPEN_KILL_SUIDGID",
}
# constants newer than the installed header (7.38), values from the Linux 6.9 uapi header (7.40);
# listed separately in evidence as "supplement"
SUPPLEMENT = {"FUSE_HAS_RESEND": 1 << 39, "FUSE_NOTIFY_RESEND": 7}
# crate items deliberately not compared (with the reason shown in evidence)
CONST_SKIP = {
    "KERNEL_MINOR_VERSION": "the crate declares the minor it implements (33), not the header's",
    "Opcode::MaxOpcode": "crate-only sentinel",
    "NotifyOpcode::CodeMax": "FUSE_NOTIFY_CODE_MAX grows with every kernel release",
    "FD_PASSTHROUGH": "Anolis-kernel extension, deliberately placed at bit 63 (see the crate's comment); no upstream value",
    "FsOptions::FD_PASSTHROUGH": "as FD_PASSTHROUGH",
    "KERNEL_MINOR_VERSION_INIT_OUT_SIZE": "crate-internal threshold (checked behaviourally by C12)",
    "KERNEL_MINOR_VERSION_INIT_22_OUT_SIZE": "crate-internal threshold (checked behaviourally by C12)",
    "KERNEL_MINOR_VERSION_LOOKUP_NEGATIVE_ENTRY_ZERO": "crate-internal threshold (checked behaviourally by C03)",
}


def upper_snake(name):
    return re.sub(r"(?<!^)(?=[A-Z])", "_", name).upper()


def generate(out_path, scratch):
    cstructs, cenums, cdefines = parse_c_header(FUSE_H)
    table, usable = run_c_oracle(scratch, cstructs, cenums, cdefines)
    ctab = table["structs"]
    cconst = table["consts"]
    for k, v in SUPPLEMENT.items():
        cconst.setdefault(k, v)

    rs_linux, src_linux = parse_rust_structs(os.path.join(REPO, "src/abi/fuse_abi_linux.rs"))
    rs_virtio, src_virtio = parse_rust_structs(os.path.join(REPO, "src/abi/virtio_fs.rs"))

    out = ["// GENERATED by engine/gen_c13.py on every run from /repo's ABI sources and the C oracle.",
           "#![allow(unused_imports, clippy::all, non_snake_case)]",
           "use super::*;", "use vm_memory::ByteValued;",
           "use crate::abi::virtio_fs::*;", "",
           "fn le(b: &[u8], off: usize, w: usize) -> u64 { let mut v = 0u64; let mut i = 0; while i < w { v |= (b[off + i] as u64) << (8 * i); i += 1; } v }",
           ""]
    harnesses = []
    report = {"structs_compared": [], "structs_without_counterpart": [], "consts_compared": 0,
              "consts_without_counterpart": [], "consts_skipped": CONST_SKIP,
              "header": FUSE_H, "header_version": "%s.%s" % (cconst.get("FUSE_KERNEL_VERSION"), cconst.get("FUSE_KERNEL_MINOR_VERSION"))}

    allrs = dict(rs_linux)
    allrs.update(rs_virtio)
    for rname in sorted(allrs):
        structs = rs_linux if rname in rs_linux else rs_virtio
        try:
            rl = rust_leaves(allrs, rname)
        except KeyError as e:
            report["structs_without_counterpart"].append("%s (unparsed field %s)" % (rname, e))
            continue
        if rname in SLICE_MAP:
            cname, start, count = SLICE_MAP[rname]
            cl_all = ctab[cname]["leaves"]
            idx = [i for i, l in enumerate(cl_all) if l[0] == start][0]
            cl = cl_all[idx: idx + count if count else None]
            base = cl[0][1]
            csize = sum(l[2] for l in cl)
        else:
            cname = STRUCT_MAP.get(rname, "fuse_" + snake(rname))
            if cname not in ctab:
                report["structs_without_counterpart"].append(rname)
                continue
            cl = ctab[cname]["leaves"]
            base = 0
            csize = ctab[cname]["size"]
        # --- size: equal, or equal to a FUSE_COMPAT_*_SIZE the header defines for this struct
        rsize = sum(RT[t] for _, t in rl)
        compat = None
        if rsize != csize:
            stem = cname[5:].upper()
            for k, v in cconst.items():
                if re.match(r"FUSE_COMPAT_(\d+_)?%s_SIZE$" % re.escape(stem), k) and v == rsize:
                    compat = k
            if compat:
                cl = [l for l in cl if l[1] - base + l[2] <= rsize]
        report["structs_compared"].append("%s <-> struct %s (%d bytes, %d kernel leaves%s)" % (
            rname, cname, csize, len(cl), ", crate uses the %s prefix" % compat if compat else ""))
        h = "c13_layout_%s" % rname
        harnesses.append(h)
        size_ok = (rsize == csize) or compat is not None
        body = ["#[kani::proof]", "#[kani::unwind(%d)]" % (rsize + 2), "fn %s() {" % h,
                "    // kernel: struct %s, size %d%s" % (cname, csize, " (compat prefix %s)" % compat if compat else ""),
                "    assert!(core::mem::size_of::<%s>() == %d, \"[C13] %s has no implicit padding\");" % (rname, rsize, rname),
                "    assert!(%s, \"[C13] %s size %d equals sizeof(struct %s) = %d or a FUSE_COMPAT size of it\");" % (
                    "true" if size_ok else "false", rname, rsize, cname, csize),
                "    let bytes: [u8; %d] = kani::any();" % rsize,
                "    let v = *%s::from_slice(&bytes).unwrap();" % rname]
        cby = {}
        for cd, coff, cw in cl:
            cby[cd] = (coff - base, cw)
        ro = 0
        for rpath, rty in rl:
            rw = RT[rty]
            uns = {"i64": "u64", "i32": "u32", "i16": "u16", "i8": "u8"}.get(rty, rty)
            cpath = re.sub(r"\btype_\b", "type", rpath)
            padlike = re.match(r"(padding|unused|dummy|spare|reserved)\w*(\[\d+\])?$", rpath.split(".")[-1]) is not None
            if cpath in cby and not (padlike and cby[cpath] != (ro, rw)):
                coff, cw = cby[cpath]
                body.append("    assert!(core::mem::size_of_val(&v.%s) == %d, \"[C13] %s.%s width equals kernel %s.%s\");" % (rpath, cw, rname, rpath, cname, cpath))
                body.append("    assert!((v.%s as %s as u64) == le(&bytes, %d, %d), \"[C13] %s.%s is the kernel field %s.%s at offset %d\");" % (rpath, uns, coff, cw, rname, rpath, cname, cpath, coff))
            else:
                # no same-named kernel field (padding / reserved / renamed): the range the crate
                # uses for it must be tiled exactly by kernel fields
                cover = sorted((o, w, d) for d, (o, w) in cby.items() if o >= ro and o + w <= ro + rw)
                tiled = sum(w for _, w, _ in cover) == rw
                body.append("    assert!(%s, \"[C13] %s.%s (bytes %d..%d, no same-named kernel field) is tiled exactly by kernel fields %s\");" % (
                    "true" if tiled else "false", rname, rpath, ro, ro + rw, ",".join(d for _, _, d in cover) or "<none>"))
                body.append("    assert!((v.%s as %s as u64) == le(&bytes, %d, %d), \"[C13] %s.%s decodes its own bytes\");" % (rpath, uns, ro, rw, rname, rpath))
            ro += rw
        body += ["    let back = v.as_slice();",
                 "    let mut i = 0; while i < %d { assert!(back[i] == bytes[i], \"[C13] %s encodes back to the same bytes\"); i += 1; }" % (rsize, rname),
                 "    kani::cover!(bytes[0] != 0, \"non-zero image\");",
                 "}", ""]
        out += body

    # ---- constants
    cons = []
    def add(rexpr, key, cast):
        if key in CONST_SKIP or key.split("::")[-1] in CONST_SKIP and "::" not in key:
            return
        cands = [CONST_MAP[key]] if key in CONST_MAP else []
        base = key.split("::")[-1]
        if "::" in key and key.split("::")[0] == "Opcode":
            cands.append("FUSE_" + upper_snake(base))
        elif "::" in key and key.split("::")[0] == "NotifyOpcode":
            cands.append("FUSE_NOTIFY_" + upper_snake(base))
        else:
            cands += [base, "FUSE_" + base]
        for c in cands:
            if c in cconst:
                cons.append((rexpr, key, c, cconst[c], cast))
                return
        report["consts_without_counterpart"].append(key)

    for m in re.finditer(r"^(?:pub\s+)?const\s+(\w+)\s*:\s*(u64|u32|usize|u16|i32)\s*=", src_linux, re.M):
        add(m.group(1), m.group(1), m.group(2))
    em = re.search(r"pub enum Opcode\s*\{(.*?)\n\}", src_linux, re.S)
    for m in re.finditer(r"(\w+)\s*=\s*[\d_]+", em.group(1)):
        add("Opcode::%s as u32" % m.group(1), "Opcode::" + m.group(1), "u32")
    em = re.search(r"pub enum NotifyOpcode\s*\{(.*?)\n\}", src_linux, re.S)
    for m in re.finditer(r"(\w+)\s*=\s*[\d_]+", em.group(1)):
        add("NotifyOpcode::%s as u32" % m.group(1), "NotifyOpcode::" + m.group(1), "u32")
    for m in re.finditer(r"const\s+(\w+)\s*=\s*0x[0-9a-fA-F]+\s*;", src_virtio):
        add("SetupmappingFlags::%s.bits()" % m.group(1), "SetupmappingFlags::" + m.group(1), "u64")
    # bitflags members must equal the constants they are built from AND the header
    for bm in re.finditer(r"pub struct (\w+)\s*:\s*(u64|u32)\s*\{(.*?)\n    \}", src_linux, re.S):
        bname = bm.group(1)
        for m in re.finditer(r"const\s+(\w+)\s*=\s*(\w+)\s*;", bm.group(3)):
            member, cname = m.group(1), m.group(2)
            prefix = {"FsOptions": "FUSE_", "OpenOptions": "FOPEN_", "SetattrValid": "FATTR_",
                      "IoctlFlags": "FUSE_", "SetupmappingFlags": "FUSE_SETUPMAPPING_FLAG_"}.get(bname, "FUSE_")
            if "%s::%s" % (bname, member) in CONST_SKIP:
                continue
            for c in ([CONST_MAP["%s::%s" % (bname, member)]] if "%s::%s" % (bname, member) in CONST_MAP else []) + [prefix + member, "FUSE_" + cname, cname]:
                if c in cconst:
                    cons.append(("%s::%s.bits()" % (bname, member), "%s::%s" % (bname, member), c, cconst[c], bm.group(2)))
                    break
            else:
                report["consts_without_counterpart"].append("%s::%s" % (bname, member))
    report["consts_compared"] = len(cons)
    report["const_samples"] = ["%s == %s (%d)" % (k, c, v) for _, k, c, v, _ in cons[:12]]
    # split into chunks so each harness stays small
    CH = 40
    for ci in range(0, len(cons), CH):
        h = "c13_consts_%d" % (ci // CH)
        harnesses.append(h)
        out += ["#[kani::proof]", "fn %s() {" % h]
        for rexpr, key, c, val, cast in cons[ci:ci + CH]:
            out.append("    assert!(((%s) as u64) == %du64, \"[C13] %s equals kernel %s = %d\");" % (rexpr, val, key, c, val))
        out += ["    kani::cover!(true, \"constants block reached\");", "}", ""]
    open(out_path, "w").write("\n".join(out))
    report["harnesses"] = harnesses
    return report


if __name__ == "__main__":
    import sys
    import tempfile
    d = tempfile.mkdtemp(prefix="c13gen.", dir="/var/tmp")
    rep = generate(sys.argv[1] if len(sys.argv) > 1 else os.path.join(d, "abi__c13_gen.rs"), d)
    print(json.dumps(rep, indent=1))


def generate_koff(out_path, scratch):
    """kernel offsets/sizes as Rust constants for the opcode harnesses (oracle = C compiler)."""
    cstructs, cenums, cdefines = parse_c_header(FUSE_H)
    table, _ = run_c_oracle(scratch, cstructs, cenums, cdefines)
    out = ["// GENERATED from /usr/include/linux/fuse.h by the C compiler (engine/gen_c13.py generate_koff)",
           "#![allow(dead_code)]"]
    for sname, info in sorted(table["structs"].items()):
        if not sname.startswith("fuse_"):
            continue
        stem = sname[5:].upper()
        out.append("pub const K_%s_SIZE: usize = %d;" % (stem, info["size"]))
        for d, off, w in info["leaves"]:
            ident = re.sub(r"[^A-Za-z0-9]+", "_", d).strip("_").upper()
            out.append("pub const K_%s__%s: usize = %d;" % (stem, ident, off))
    for k in ("FUSE_COMPAT_SETXATTR_IN_SIZE", "FUSE_COMPAT_INIT_OUT_SIZE", "FUSE_COMPAT_22_INIT_OUT_SIZE"):
        out.append("pub const K_%s: usize = %d;" % (k[5:], table["consts"][k]))
    open(out_path, "w").write("\n".join(out) + "\n")
    return {"header": FUSE_H, "structs": len(table["structs"])}
