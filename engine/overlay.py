#!/usr/bin/env python3
"""Build a scratch overlay crate from /repo's *current working tree*.

The overlay is a byte-for-byte copy of /repo/src (+ Cargo.toml/Cargo.lock/build.rs) placed outside
/repo and /verif, into which harness modules are *added* (new files plus `#[cfg(kani)] mod x;`
lines appended to existing module files).  No existing line of the copied sources is changed.

Flavours:
  real   everything real.
  model  src/transport/ replaced by /verif/models/transport.rs (a stub that is listed in every
         claim using it); passthrough/overlayfs compiled out by not enabling fusedev/virtiofs...
"""
import os, re, shutil, sys

REPO = os.environ.get("VERIF_REPO", "/repo")
VERIF = os.path.dirname(os.path.dirname(os.path.abspath(__file__)))


def _rewrite_cargo_toml(text):
    # drop the two workspace members (tests/passthrough, tests/overlay are separate crates that
    # are not copied); keep [workspace.dependencies].
    text = re.sub(r"\[workspace\]\s*members\s*=\s*\[[^\]]*\]", "[workspace]", text, flags=re.S)
    return text


# where each harness module is attached: harness file name prefix -> (module file to append to,
# directory to copy into)
ATTACH = {
    "lib": ("src/lib.rs", "src"),
    "transport": ("src/transport/mod.rs", "src/transport"),
    "fusedev": ("src/transport/fusedev/mod.rs", "src/transport/fusedev"),
    "virtiofs": ("src/transport/virtiofs/mod.rs", "src/transport/virtiofs"),
    "server": ("src/api/server/mod.rs", "src/api/server"),
    "srvsync": ("src/api/server/sync_io.rs", "src/api/server/sync_io"),
    "srvasync": ("src/api/server/async_io.rs", "src/api/server/async_io"),
    "vfs": ("src/api/vfs/mod.rs", "src/api/vfs"),
    "pseudo": ("src/api/pseudo_fs.rs", "src/api/pseudo_fs"),
    "pt": ("src/passthrough/mod.rs", "src/passthrough"),
    "ptsync": ("src/passthrough/sync_io.rs", "src/passthrough/sync_io"),
    "filebuf": ("src/common/file_buf.rs", "src/common/file_buf"),
    "abi": ("src/abi/fuse_abi_linux.rs", "src/abi/fuse_abi_linux"),
    "fsmod": ("src/api/filesystem/mod.rs", "src/api/filesystem"),
}


def vendor_arcswap(dest):
    """replace the arc-swap dependency by its sequential specification (models/arc-swap-seq):
    Kani is single-threaded, and the real crate's thread-local debt lists need pthread_key_create
    and cost CBMC minutes per load()"""
    lp = os.path.join(REPO, "Cargo.lock")
    lock = open(lp if os.path.exists(lp) else "/repo/Cargo.lock").read()
    m = re.search(r'name = "arc-swap"\nversion = "([^"]+)"', lock)
    ver = m.group(1)
    vd = os.path.join(dest, "vendor", "arc-swap")
    shutil.copytree(os.path.join(VERIF, "models", "arc-swap-seq"), vd)
    ct = os.path.join(vd, "Cargo.toml")
    t = open(ct).read()
    t = re.sub(r'version = "[^"]+"', 'version = "%s"' % ver, t, count=1)
    open(ct, "w").write(t)
    with open(os.path.join(dest, "Cargo.toml"), "a") as fh:
        fh.write('\n[patch.crates-io]\narc-swap = { path = "vendor/arc-swap" }\n')


def build(dest, flavour, harness_files, extra_files=None):
    """harness_files: list of paths; file name `<attach>__<name>.rs` decides where it is attached.
    extra_files: {relative path in overlay: content} written verbatim (generated tables)."""
    if os.path.exists(dest):
        shutil.rmtree(dest)
    os.makedirs(dest)
    shutil.copytree(os.path.join(REPO, "src"), os.path.join(dest, "src"))
    for f in ("Cargo.lock", "build.rs"):
        src = os.path.join(REPO, f)
        if not os.path.exists(src):
            src = os.path.join("/repo", f)  # Cargo.lock is git-ignored: absent from HEAD snapshots
        shutil.copy(src, os.path.join(dest, f))
    with open(os.path.join(REPO, "Cargo.toml")) as fh:
        toml = _rewrite_cargo_toml(fh.read())
    with open(os.path.join(dest, "Cargo.toml"), "w") as fh:
        fh.write(toml)
    vendor_arcswap(dest)
    os.makedirs(os.path.join(dest, ".cargo"), exist_ok=True)
    with open(os.path.join(dest, ".cargo", "config.toml"), "w") as fh:
        fh.write("[net]\noffline = true\n")
    if flavour == "model":
        shutil.rmtree(os.path.join(dest, "src", "transport"))
        os.makedirs(os.path.join(dest, "src", "transport"))
        shutil.copy(os.path.join(REPO, "src", "transport", "fs_cache_req_handler.rs"),
                    os.path.join(dest, "src", "transport", "fs_cache_req_handler.rs"))
        shutil.copy(os.path.join(VERIF, "models", "transport.rs"),
                    os.path.join(dest, "src", "transport", "mod.rs"))
    appended = {}
    for hf in harness_files:
        base = os.path.basename(hf)
        attach, _, rest = base.partition("__")
        if attach not in ATTACH:
            raise SystemExit("overlay: unknown attach point in %s" % base)
        modfile, moddir = ATTACH[attach]
        modname = "verif_" + rest[:-3]
        target_mod = os.path.join(dest, modfile)
        if not os.path.exists(target_mod):
            raise SystemExit("overlay: %s missing in /repo (needed by %s)" % (modfile, base))
        # harness files live in <overlay>/verif_harness/ and are attached with #[path]
        ddir = os.path.join(dest, "verif_harness")
        os.makedirs(ddir, exist_ok=True)
        hpath = os.path.join(ddir, modname + ".rs")
        shutil.copy(hf, hpath)
        appended.setdefault(target_mod, []).append((modname, hpath))
    for target_mod, mods in appended.items():
        with open(target_mod, "a") as fh:
            fh.write("\n")
            for m, hpath in mods:
                fh.write("#[cfg(kani)]\n#[path = \"%s\"]\npub(crate) mod %s;\n" % (hpath, m))
    for rel, content in (extra_files or {}).items():
        p = os.path.join(dest, rel)
        os.makedirs(os.path.dirname(p), exist_ok=True)
        with open(p, "w") as fh:
            fh.write(content)
    return dest


if __name__ == "__main__":
    build(sys.argv[1], sys.argv[2], sys.argv[3:])
    print(sys.argv[1])
