#!/usr/bin/env python3
"""Check one property: overlay -> cargo kani (bounded model checking of the real code) ->
classification -> concrete playback / replay -> known findings -> evidence -> exit code.

exit 0  property held on everything explored (KNOWN-FINDING lines allowed)
exit 1  reproduced violation: line `VIOLATION property=<id> replay=<path>`
exit 2  inconclusive (timeout, OOM, unwinding assertion, compile error, spurious counterexample)
"""
import argparse
import concurrent.futures as cf
import json
import os
import random
import shutil
import sys
import time

HERE = os.path.dirname(os.path.abspath(__file__))
VERIF = os.path.dirname(HERE)
sys.path.insert(0, HERE)
import kani  # noqa: E402
import overlay  # noqa: E402
import registry  # noqa: E402
import gen_c13  # noqa: E402

SCRATCH_ROOT = os.environ.get("VERIF_SCRATCH", "/var/tmp")
# evidence directory (overridable so that development runs against scratch copies of /repo --
# engine/seedpar.py -- never touch the committed evidence)
EVDIR = os.environ.get("VERIF_EVIDENCE", os.path.join(VERIF, "evidence"))


def log(*a):
    print(*a, flush=True)


def load_known():
    p = os.path.join(VERIF, "known_findings.json")
    if not os.path.exists(p):
        return {"findings": [], "fixed": []}
    return json.load(open(p))


def build_overlays(scratch, harnesses):
    """one overlay per flavour containing every harness file of that flavour that the selected
    harnesses need (plus the flavour's support files)"""
    ovs = {}
    by_flavour = {}
    for h in harnesses:
        by_flavour.setdefault(h["flavour"], set()).update(h["files"])
    for flavour, files in by_flavour.items():
        dest = os.path.join(scratch, "ov-" + flavour)
        extra = {}
        flist = sorted(files)
        gen = [f for f in flist if os.path.basename(f).startswith("GEN:")]
        flist = [f for f in flist if not os.path.basename(f).startswith("GEN:")]
        gen_files = []
        for g in gen:
            name = os.path.basename(g)[4:]
            path = os.path.join(scratch, name)
            if name == "abi__c13_gen.rs":
                info = gen_c13.generate(path, scratch)
                registry.GEN_INFO["c13"] = info
                gen_files.append(path)
            elif name.endswith("__koff.rs"):
                registry.GEN_INFO["kernel_offsets"] = gen_c13.generate_koff(path, scratch)
                gen_files.append(path)
            else:
                raise SystemExit("unknown generated file " + name)
        base = "real" if flavour.startswith("real") else "model"
        overlay.build(dest, base, [os.path.join(VERIF, f) for f in flist] + gen_files, extra)
        ovs[flavour] = dest
    return ovs


def main():
    ap = argparse.ArgumentParser()
    ap.add_argument("property")
    ap.add_argument("--tier", default=os.environ.get("VERIF_TIER", "quick"), choices=["quick", "thorough"])
    ap.add_argument("--jobs", type=int, default=int(os.environ.get("VERIF_JOBS", "8")))
    ap.add_argument("--only", default=None, help="substring filter on harness names (debugging)")
    ap.add_argument("--keep", action="store_true")
    args = ap.parse_args()
    pid = args.property
    seed = int(os.environ.get("VERIF_SEED", "0"))
    t0 = time.time()

    hs = registry.select(pid, args.tier)
    if args.only:
        hs = [h for h in hs if any(o in h["fqn"] for o in args.only.split(","))]
    if not hs:
        log("no harness registered for", pid)
        return 2
    random.Random(seed).shuffle(hs)
    # longest first within the shuffled order keeps the pool busy
    hs.sort(key=lambda h: -h.get("cost", 1))

    scratch = os.path.join(SCRATCH_ROOT, "fbrv.%d" % os.getpid())
    os.makedirs(scratch, exist_ok=True)
    logdir = os.path.join(scratch, "logs")
    results = []
    try:
        ovs = build_overlays(scratch, hs)
        # warm one target dir per (flavour, features) and clone it for the workers
        jobs = max(1, min(args.jobs, len(hs)))
        groups = {}
        for h in hs:
            groups.setdefault((h["flavour"], tuple(h.get("features") or ())), []).append(h)
        tdirs = {}
        for key, members in groups.items():
            flavour = key[0]
            warm = os.path.join(scratch, "tgt-%s-%s-0" % (flavour, "_".join(key[1]) or "default"))
            first = members[0]
            cmd = kani.base_cmd(warm, first.get("features"), first["fqn"]) + ["--only-codegen"]
            rc, to, dt = kani._run(cmd, ovs[flavour], os.path.join(scratch, "warm-%s.log" % flavour), 1500, 16)
            log("warm build %s %s: rc=%s %.0fs" % (flavour, key[1], rc, dt))
            if rc != 0:
                txt = open(os.path.join(scratch, "warm-%s.log" % flavour), errors="replace").read()
                errs = [l for l in txt.splitlines() if l.startswith("error")][:10]
                log("BUILD FAILED for overlay " + flavour + "\n  " + "\n  ".join(errs))
                results.append({"harness": "<build %s>" % flavour, "verdict": "inconclusive",
                                "failures": [], "notes": ["overlay does not compile: " + " | ".join(errs)],
                                "stats": {}, "wall_s": dt})
                continue
            n = max(1, min(jobs, len(members)))
            dirs = [warm]
            for i in range(1, n):
                d = warm[:-1] + str(i)
                shutil.copytree(warm, d, symlinks=True)
                dirs.append(d)
            tdirs[key] = dirs

        # model transport is re-validated against the repository's own tests on every run
        model_val = {}
        val_thread = None
        if any(h["flavour"].startswith("model") for h in hs):
            import threading
            import validate_model

            def _val():
                try:
                    model_val.update(validate_model.validate(scratch))
                except Exception as e:  # noqa
                    model_val.update({"ok": False, "note": "validation crashed: %r" % (e,)})
            val_thread = threading.Thread(target=_val)
            val_thread.start()

        import queue
        pools = {k: queue.Queue() for k in tdirs}
        for k, dirs in tdirs.items():
            for d in dirs:
                pools[k].put(d)

        def work(h):
            key = (h["flavour"], tuple(h.get("features") or ()))
            if key not in pools:
                return None
            td = pools[key].get()
            try:
                to = h["timeout_thorough"] if args.tier == "thorough" else h["timeout"]
                r = kani.run_harness(ovs[h["flavour"]], td, h, logdir, to, h.get("mem", 12))
                # a run that died without a verdict (solver out of memory under the ulimit) is
                # repeated once with twice the memory before it is reported as inconclusive
                if r["verdict"] == "inconclusive" and any(("no verdict" in n or "without a classified" in n or "out of memory" in n) for n in r["notes"]) \
                        and time.time() - t0 < 500:
                    first = r["notes"]
                    r = kani.run_harness(ovs[h["flavour"]], td, h, logdir, to, 2 * h.get("mem", 12))
                    r["notes"] = r["notes"] + ["second attempt with doubled memory after: " + "; ".join(first)[:120]]
                r["_td"] = td
                return r
            finally:
                pools[key].put(td)

        with cf.ThreadPoolExecutor(max_workers=jobs) as ex:
            futs = {ex.submit(work, h): h for h in hs}
            for f in cf.as_completed(futs):
                h = futs[f]
                r = f.result()
                if r is None:
                    continue
                r["meta"] = {k: h[k] for k in ("bounds", "functions", "stubs", "assumptions", "what") if k in h}
                results.append(r)
                st = r["stats"]
                log("  %-60s %-12s %6.0fs  vars=%s steps=%s %s" % (
                    "::".join(h["fqn"].split("::")[-3:]).replace("verif_", ""), r["verdict"], r["wall_s"], st.get("sat_vars"),
                    st.get("symex_steps"), "; ".join(r["notes"])[:200]))

        if val_thread is not None:
            val_thread.join()
            log("model transport validation: %s (%s repo tests passed, %s failed)" % (
                "ok" if model_val.get("ok") else "FAILED", model_val.get("tests_passed"), model_val.get("tests_failed")))
            if not model_val.get("ok"):
                results.append({"harness": "<model transport validation>", "verdict": "inconclusive", "failures": [],
                                "notes": ["the repository's own fusedev/server tests do not pass over the model transport: "
                                          + str(model_val.get("log_tail", model_val.get("note", "")))[-600:]], "stats": {}, "wall_s": 0})

        # ---- failures: playback/replay, known findings
        known = load_known()
        violations, known_hits, spurious = [], [], []
        replays = 0
        os.makedirs(os.path.join(EVDIR, "replay"), exist_ok=True)
        for r in results:
            if r["verdict"] != "fail":
                continue
            h = [x for x in hs if x["fqn"] == r["harness"]][0]
            mine = [f for f in r["failures"] if registry.attributed(f, h, pid)]
            if not mine:
                r["verdict"] = "pass-other"
                r["notes"].append("failing checks belong to another property: " +
                                  "; ".join(sorted(set(f["desc"] for f in r["failures"])))[:300])
                continue
            import replay
            rp = replay.confirm(scratch, ovs, r["_td"], h, r, mine, logdir)
            replays += 1 if rp["ran"] else 0
            r["replay"] = rp
            key = registry.finding_key(h, mine)
            kf = [k for k in known.get("findings", []) if k["property"] == pid and k["key"] == key]
            if not rp["reproduced"]:
                spurious.append((r, rp))
                continue
            if kf:
                known_hits.append((kf[0], r))
            else:
                path = os.path.join(EVDIR, "replay", "%s-%s.json" % (pid, ".".join(h["fqn"].split("::")[-3:])))
                json.dump({"property": pid, "harness": h["fqn"], "key": key,
                           "failed_checks": mine, "replay": rp, "what": h.get("what")},
                          open(path, "w"), indent=1)
                violations.append((path, r, mine))

        # ---- evidence
        inconcl = [r for r in results if r["verdict"] == "inconclusive"]
        passed = [r for r in results if r["verdict"] in ("pass", "pass-other")]
        samples = []
        for r in sorted(results, key=lambda r: r["harness"]):
            st = r.get("stats", {})
            samples.append({
                "harness": r["harness"], "verdict": r["verdict"],
                "what": r.get("meta", {}).get("what"),
                "bounds": r.get("meta", {}).get("bounds"),
                "functions_encoded": r.get("meta", {}).get("functions"),
                "stubs": sorted(set((r.get("meta", {}).get("stubs") or []) + st.get("stubs", []))),
                "assumptions": r.get("meta", {}).get("assumptions"),
                "checks": st.get("checks"), "covers_satisfied": len([c for c in st.get("covers", []) if c["status"] == "SATISFIED"]),
                "covers": [c["desc"] for c in st.get("covers", [])],
                "symex_steps": st.get("symex_steps"), "vccs": st.get("vccs"),
                "sat_variables": st.get("sat_vars"), "sat_clauses": st.get("sat_clauses"),
                "solver_calls": st.get("solver_calls"),
                "symex_s": st.get("symex_s"), "solver_s": st.get("solver_s"), "wall_s": round(r["wall_s"], 1),
                "notes": r["notes"],
                "failed_checks": [f["desc"] for f in r.get("failures", [])][:10],
            })
        ev = {
            "property_id": pid, "tier": args.tier, "seed": seed, "level": "model_checking",
            "coverage": {
                "states": max(1, sum(r["stats"].get("sat_vars", 0) for r in results if r.get("stats"))),
                "transitions": max(1, sum(r["stats"].get("sat_clauses", 0) for r in results if r.get("stats"))),
                "traces_validated_against_impl": replays + int(model_val.get("tests_passed") or 0),
                "samples": samples,
                "explanation": "states/transitions = SAT variables/clauses summed over the harnesses' "
                               "CBMC queries (bounded model checking of the compiled Rust code; every "
                               "kani::any() input is a solver variable). Each sample is one harness: "
                               "bounds, functions encoded, stubs, checks discharged, solver time. "
                               "traces_validated_against_impl = counterexamples replayed natively against the real code "
                               "+ the repository's own server/fusedev-writer tests run over the model transport (its validation).",
                "harnesses": len(results), "harnesses_passed": len(passed),
                "harnesses_inconclusive": len(inconcl),
                "checks_discharged": sum(r["stats"].get("checks", 0) for r in passed if r.get("stats")),
                "solver_queries": sum(r["stats"].get("solver_calls", 0) for r in results if r.get("stats")),
                "solver_time_s": round(sum(r["stats"].get("solver_s", 0) for r in results if r.get("stats")), 1),
                "symex_time_s": round(sum(r["stats"].get("symex_s", 0) for r in results if r.get("stats")), 1),
                "engine": "Kani 0.68.0 / CBMC 6.11.0 / CaDiCaL, unwinding assertions on",
                "known_findings_hit": [k["key"] for k, _ in known_hits],
                "extra": registry.GEN_INFO,
                "model_transport_validation": model_val or None,
            },
            "assumptions": registry.assumptions_for(pid, hs),
            "wall_s": round(time.time() - t0, 1),
            "violations": len(violations),
        }
        os.makedirs(EVDIR, exist_ok=True)
        json.dump(ev, open(os.path.join(EVDIR, pid + ".json"), "w"), indent=1)

        for k, r in known_hits:
            log("KNOWN-FINDING: property=%s %s [%s]" % (pid, k["what"], k["key"]))
        for r, rp in spurious:
            log("SPURIOUS counterexample (did not reproduce on the real code): %s -- %s" % (r["harness"], rp.get("note")))
        for r in inconcl:
            log("INCONCLUSIVE %s: %s (log kept: %s)" % (r["harness"], "; ".join(r["notes"])[:300], r.get("log")))
        for path, r, mine in violations:
            log("failing checks in %s: %s" % (r["harness"], "; ".join(sorted(set(f["desc"] for f in mine)))[:500]))
            log("VIOLATION property=%s replay=%s" % (pid, path))
        log("%s %s: %d harnesses, %d passed, %d inconclusive, %d violations, %d known findings, %.0fs" % (
            pid, args.tier, len(results), len(passed), len(inconcl), len(violations), len(known_hits), time.time() - t0))
        if violations:
            return 1
        if inconcl or spurious:
            keep = os.path.join(EVDIR, "logs-" + pid)
            shutil.rmtree(keep, ignore_errors=True)
            os.makedirs(keep, exist_ok=True)
            for r in inconcl + [s[0] for s in spurious]:
                if r.get("log") and os.path.exists(r["log"]):
                    # keep the tail only (logs are large)
                    txt = open(r["log"], errors="replace").read()
                    open(os.path.join(keep, os.path.basename(r["log"])), "w").write(txt if len(txt) < 300000 else txt[:100000] + "\n[...]\n" + txt[-200000:])
            return 2
        return 0
    finally:
        if not args.keep:
            shutil.rmtree(scratch, ignore_errors=True)


if __name__ == "__main__":
    try:
        rc = main()
    except SystemExit:
        raise
    except Exception:  # an engine error is never a verdict about the property
        import traceback
        traceback.print_exc()
        log("INCONCLUSIVE engine error (see traceback)")
        rc = 2
    sys.exit(rc)
