#!/usr/bin/env python3
"""Rewrite DESIGN.md section 3 (seeded changes) from seeded/*/meta.json and seeded/RESULTS.json."""
import json, os, re
V = os.path.dirname(os.path.dirname(os.path.abspath(__file__)))
res = json.load(open(os.path.join(V, "seeded", "RESULTS.json")))
rows = []
for d in sorted(os.listdir(os.path.join(V, "seeded"))):
    mp = os.path.join(V, "seeded", d, "meta.json")
    if not os.path.exists(mp):
        continue
    m = json.load(open(mp))
    r = res.get(d, {})
    # latest result: prefer plain quick, else any
    # a full quick run is preferred; a restricted re-run (quick+<harness filter>) replaces a full run
    # that ended inconclusive under overload or predates a rebased patch
    caught = [k for k in sorted(r) if r[k].get("exit") == 1]
    key = ("quick" if "quick" in caught else caught[0]) if caught else ("quick" if "quick" in r else (sorted(r)[0] if r else None))
    out = r.get(key, {}) if key else {}
    if not out:
        verdict, by = "not run", ""
    elif out.get("exit") == 1:
        verdict = "caught (VIOLATION, replayed natively)" if key.startswith("quick") else "caught by THOROUGH tier only (VIOLATION, replayed natively)"
        by = ", ".join(sorted(set(re.sub(r".*replay/C\d+-", "", v).replace(".json", "") for v in out.get("violations", []))))[:150]
    elif out.get("exit") == 0:
        verdict, by = "MISSED", ""
    else:
        verdict = "inconclusive (exit 2)"
        by = "; ".join(out.get("inconclusive", []))[:120]
    rows.append("| %s | %s | %s | %s | %s |" % (d, m.get("property"), (m.get("needs_to_manifest") or "")[:110].replace("|", "/"), verdict + (" [%s]" % key if key and key != "quick" and key.startswith("quick") else ""), by))
txt = ("## 3. Seeded changes (sub-agents, property text only)\n\n"
       "Each change was produced by a fresh sub-agent that saw only the property text and a scratch worktree, and was kept only after I\n"
       "confirmed (engine/seed_confirm.sh) that it compiles, keeps the pinned suite green, and that its demonstration fails with it and\n"
       "passes without it. `engine/seedpar.py` runs the registered QUICK check of the property against a scratch worktree with the patch\n"
       "applied (never /repo itself). Results (seeded/RESULTS.json):\n\n"
       "| seed | property | needs | quick check | failing harness(es) |\n|---|---|---|---|---|\n" + "\n".join(rows) + "\n\n")
p = os.path.join(V, "DESIGN.md")
s = open(p).read()
a = s.index("## 3. Seeded changes")
b = s.index("## 4. Findings")
extra = ""
m = re.search(r"<!-- seednotes -->.*?<!-- /seednotes -->\n", s[a:b], re.S)
if m:
    extra = m.group(0) + "\n"
open(p, "w").write(s[:a] + txt + extra + s[b:])
print(len(rows), "rows")
