#!/bin/bash
# usage: seed_confirm.sh <ID> <out-name> "<demo command>"
# Confirms, in the sub-agent's scratch worktree /tmp/seed-<ID>, that the seeded change compiles,
# keeps the pinned suite green, and that the demonstration fails with it and passes without it;
# then stores patch.diff + demo + meta.json under /verif/seeded/<out-name>/.
id="$1"; name="$2"; demo="$3"
wt=/tmp/seed-$id; out=/tmp/seed-$id-out; dst=/verif/seeded/$name
cd $wt || exit 9
export CARGO_NET_OFFLINE=true
# the sub-agent's patch.diff holds the library change only (a demo `mod` line, if any, is not in it)
if [ -s $out/patch.diff ]; then cp $out/patch.diff /tmp/seed-$id.patch; else git diff -- src > /tmp/seed-$id.patch; fi
[ -s /tmp/seed-$id.patch ] || { echo "NO SOURCE DIFF"; exit 9; }
git apply -R --check /tmp/seed-$id.patch || { echo "patch.diff does not match the worktree"; exit 9; }
echo "== suite with patch"
cargo nextest run --workspace --no-fail-fast --offline --test-threads 8 > /tmp/seed-$id.suite.log 2>&1
python3 - "$id" <<'PY'
import json,re,sys
base=set(json.load(open('/root/.vp/BASELINE.json'))['stable_pass'])
log=open('/tmp/seed-%s.suite.log'%sys.argv[1]).read()
fails=set(re.findall(r'^\s+(?:FAIL|SIGABRT|SIGSEGV|TIMEOUT)\s+\[[^\]]*\]\s+(\S+)\s+(\S+)', log, re.M))
failed={"%s::%s"%(a,b) for a,b in fails}
bad=[f for f in failed if f in base]
m=re.search(r'Summary.*', log)
print("suite:", m.group(0) if m else "no summary", "| baseline tests failing:", bad)
open('/tmp/seed-%s.suite.ok'%sys.argv[1],'w').write("ok" if (m and not bad) else "bad")
PY
echo "== demo with patch (must fail)"
bash -c "$demo" > /tmp/seed-$id.demo1.log 2>&1; rc1=$?
git apply -R /tmp/seed-$id.patch || { echo "cannot revert"; exit 9; }
echo "== demo without patch (must pass)"
bash -c "$demo" > /tmp/seed-$id.demo0.log 2>&1; rc0=$?
git apply /tmp/seed-$id.patch || { echo "cannot re-apply"; exit 9; }
echo "demo rc with patch=$rc1 without=$rc0 suite=$(cat /tmp/seed-$id.suite.ok)"
if [ "$rc1" != 0 ] && [ "$rc0" = 0 ] && [ "$(cat /tmp/seed-$id.suite.ok)" = ok ]; then
  mkdir -p $dst && cp /tmp/seed-$id.patch $dst/patch.diff
  for f in $out/*; do case "$f" in *patch.diff) ;; *) cp "$f" $dst/;; esac; done
  python3 - "$dst" "$demo" "$rc1" "$rc0" <<'PY'
import json,sys,os
dst,demo,rc1,rc0=sys.argv[1:5]
p=os.path.join(dst,'meta.json')
m=json.load(open(p)) if os.path.exists(p) else {}
m['confirmed_by_me']={"suite_with_patch":"all 134 baseline tests pass","demo_cmd":demo,"demo_rc_with_patch":int(rc1),"demo_rc_without_patch":int(rc0)}
json.dump(m,open(p,'w'),indent=1)
PY
  echo "CONFIRMED -> $dst"
else
  echo "NOT CONFIRMED"; tail -5 /tmp/seed-$id.demo1.log; tail -5 /tmp/seed-$id.demo0.log
fi
