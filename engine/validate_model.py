#!/usr/bin/env python3
"""Tie the MODEL transport to the real code: run the repository's own unit tests against it.

* the real fusedev reader/writer tests (`mod tests` of src/transport/fusedev/mod.rs, copied from
  /repo's current tree on every run) are appended to the model and must pass against the model's
  Reader / FuseDevWriter (outside Kani the model performs the real write(2)/writev(2) on the fd, so
  the tests that read the reply back from a temp file are meaningful);
* the api::server unit tests (handlers over a FuseDevWriter) must pass over the model.
Returns a dict for the evidence file; raises SystemExit(2)-worthy failure info in "ok": False."""
import os, re, shutil, subprocess, sys, time

HERE = os.path.dirname(os.path.abspath(__file__))
sys.path.insert(0, HERE)
import overlay


def validate(scratch):
    t0 = time.time()
    dest = os.path.join(scratch, "ov-model-validate")
    overlay.build(dest, "model", [])
    real = open(os.path.join(overlay.REPO, "src", "transport", "fusedev", "mod.rs")).read()
    m = re.search(r"\n#\[cfg\(test\)\]\nmod tests \{.*\Z", real, re.S)
    if not m:
        return {"ok": False, "note": "no test module found in src/transport/fusedev/mod.rs"}
    tests = m.group(0)
    # async tests need tokio-uring on a real fuse fd; keep the synchronous ones
    tests = re.sub(r"\n    #\[cfg\(feature = \"async-io\"\)\]\n    mod async_io \{.*?\n    \}\n", "\n", tests, flags=re.S)
    with open(os.path.join(dest, "src", "transport", "mod.rs"), "a") as fh:
        fh.write("\n// ---- appended by engine/validate_model.py: the real fusedev tests, verbatim\n")
        fh.write(tests.replace("mod tests {", "mod real_fusedev_tests {", 1))
    env = dict(os.environ)
    env["CARGO_NET_OFFLINE"] = "true"
    env["CARGO_TARGET_DIR"] = os.path.join(scratch, "validate-target")
    log = os.path.join(scratch, "validate-model.log")
    with open(log, "wb") as fh:
        p = subprocess.run(["cargo", "test", "--offline", "--lib", "--", "transport::real_fusedev_tests", "api::server"],
                           cwd=dest, stdout=fh, stderr=subprocess.STDOUT, env=env, timeout=1800)
    txt = open(log, errors="replace").read()
    res = re.findall(r"test result: (\w+)\. (\d+) passed; (\d+) failed", txt)
    passed = sum(int(a) for _, a, _ in res)
    failed = sum(int(b) for _, _, b in res)
    names = re.findall(r"^test (\S+) \.\.\. (\w+)", txt, re.M)
    out = {"ok": p.returncode == 0 and passed > 0 and failed == 0, "tests_passed": passed, "tests_failed": failed,
           "tests": ["%s: %s" % (a, b) for a, b in names][:60], "wall_s": round(time.time() - t0, 1)}
    if not out["ok"]:
        out["log_tail"] = txt[-3000:]
    shutil.rmtree(dest, ignore_errors=True)
    shutil.rmtree(env["CARGO_TARGET_DIR"], ignore_errors=True)
    return out


if __name__ == "__main__":
    import json, tempfile
    d = tempfile.mkdtemp(prefix="fbrv.val.", dir="/var/tmp")
    try:
        print(json.dumps(validate(d), indent=1))
    finally:
        shutil.rmtree(d, ignore_errors=True)
