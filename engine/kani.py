#!/usr/bin/env python3
"""Run Kani harnesses of an overlay crate under time/memory limits and parse the verdicts.

Verdict per harness (never "pass" unless CBMC said so and the unwinding assertions held):
  pass          VERIFICATION SUCCESSFUL, every cover SATISFIED
  fail          at least one property check FAILURE that is not an unwinding/unsupported one
  inconclusive  unwinding assertion failed, CBMC ERROR/OOM, timeout, compile error,
                unsupported construct reached (unless the harness declares it as its oracle),
                or a cover witness not satisfied (vacuity guard)
"""
import glob
import json
import os
import re
import shutil
import signal
import subprocess
import time

IOERR_DROP = "std::ptr::drop_glue::<std::io::Error>"


def _env():
    e = dict(os.environ)
    e["CARGO_NET_OFFLINE"] = "true"
    e.pop("RUSTFLAGS", None)
    return e


def _run(cmd, cwd, log, timeout, mem_gb):
    """run under ulimit -v and a timeout in its own session; kill the whole session afterwards"""
    sh = "ulimit -v %d; exec %s" % (int(mem_gb * 1024 * 1024), " ".join(_q(c) for c in cmd))
    t0 = time.time()
    with open(log, "wb") as fh:
        p = subprocess.Popen(["bash", "-c", sh], cwd=cwd, stdout=fh, stderr=subprocess.STDOUT,
                             env=_env(), start_new_session=True)
        try:
            rc = p.wait(timeout=timeout)
            to = False
        except subprocess.TimeoutExpired:
            to = True
            rc = -1
        try:
            os.killpg(p.pid, signal.SIGKILL)
        except ProcessLookupError:
            pass
        p.wait()
    return rc, to, time.time() - t0


def _q(s):
    return "'" + s.replace("'", "'\\''") + "'"


def base_cmd(target_dir, features, harness):
    cmd = ["cargo", "kani", "-Z", "stubbing", "-Z", "unstable-options", "--target-dir", target_dir]
    if features is not None:
        cmd += ["--no-default-features", "--features", ",".join(features)]
        if "async-io" in features:
            cmd += ["-Z", "async-lib"]
    cmd += ["--harness", harness, "--exact"]
    return cmd


def find_mangled(target_dir, harness_fqn, pretty):
    """look the mangled name of `pretty` up in the pretty-name map Kani wrote for this harness"""
    out = set()
    short = "".join("%d%s" % (len(c), c) for c in harness_fqn.split("::")[-3:])
    for f in glob.glob(os.path.join(target_dir, "kani", "**", "*pretty_name_map.json"), recursive=True):
        if short not in os.path.basename(f):
            continue
        try:
            m = json.load(open(f))
        except Exception:
            continue
        for k, v in m.items():
            if v == pretty:
                out.add(k)
    return sorted(out)


CHECK_RE = re.compile(r"^Check (\d+): (.+)\n\t - Status: (\w+)\n\t - Description: \"(.*)\"\n(?:\t - Location: (.*)\n)?", re.M)


def parse_log(text):
    res = {"checks": 0, "failed": [], "undetermined": 0, "errors": 0, "covers": [], "unreachable": 0}
    for m in CHECK_RE.finditer(text):
        name, status, desc, loc = m.group(2), m.group(3), m.group(4).strip('"'), m.group(5) or ""
        if ".cover." in name or status in ("SATISFIED", "UNSATISFIABLE"):
            res["covers"].append({"desc": desc, "status": status, "loc": loc})
            continue
        res["checks"] += 1
        if status == "FAILURE":
            res["failed"].append({"name": name, "desc": desc, "loc": loc})
        elif status == "UNDETERMINED":
            res["undetermined"] += 1
        elif status == "ERROR":
            res["errors"] += 1
        elif status == "UNREACHABLE":
            res["unreachable"] += 1
    res["successful"] = "VERIFICATION:- SUCCESSFUL" in text
    res["verdict_line"] = "VERIFICATION:- " in text
    m = re.findall(r"(\d+) variables, (\d+) clauses", text)
    res["sat_vars"] = max([int(a) for a, _ in m], default=0)
    res["sat_clauses"] = max([int(b) for _, b in m], default=0)
    res["solver_calls"] = len(m)
    m = re.search(r"size of program expression: (\d+) steps", text)
    res["symex_steps"] = int(m.group(1)) if m else 0
    m = re.search(r"Runtime Symex: ([\d.e+-]+)s", text)
    res["symex_s"] = float(m.group(1)) if m else 0.0
    res["solver_s"] = sum(float(x) for x in re.findall(r"Runtime decision procedure: ([\d.e+-]+)s", text))
    m = re.search(r"Generated (\d+) VCC\(s\), (\d+) remaining", text)
    res["vccs"] = int(m.group(1)) if m else 0
    res["vccs_nontrivial"] = int(m.group(2)) if m else 0
    res["stubs"] = sorted(set(re.findall(r"- Stub: (.*)", text)))
    res["compile_error"] = bool(re.search(r"^error(\[E\d+\])?:", text, re.M)) and not res["verdict_line"]
    return res


UNWIND_PAT = re.compile(r"unwinding assertion|recursion unwinding")
UNSUPPORTED_PAT = re.compile(r"is not currently supported by Kani|unsupported|missing_definition|foreign function")


def classify(parsed, timed_out, rc, ffi_oracle=False):
    """-> (verdict, real_failures, notes)"""
    notes = []
    if parsed["compile_error"]:
        return "inconclusive", [], ["compile error"]
    if timed_out:
        return "inconclusive", [], ["timeout"]
    if not parsed["verdict_line"]:
        return "inconclusive", [], ["no verdict (rc=%s; OOM or crash)" % rc]
    real, unwind, unsupported = [], [], []
    for f in parsed["failed"]:
        if UNWIND_PAT.search(f["desc"]):
            unwind.append(f)
        elif UNSUPPORTED_PAT.search(f["desc"]) or "missing_definition" in f["name"] or "unsupported_construct" in f["name"]:
            unsupported.append(f)
        else:
            real.append(f)
    if parsed["errors"]:
        notes.append("%d checks ended in ERROR (solver out of memory)" % parsed["errors"])
        return "inconclusive", real, notes
    if unwind:
        notes.append("unwinding assertion failed: " + "; ".join(sorted(set(u["loc"] for u in unwind)))[:400])
        return "inconclusive", real, notes
    if unsupported and ffi_oracle:
        real += unsupported
        unsupported = []
    if real:
        return "fail", real, notes
    if unsupported:
        notes.append("unsupported construct reachable: " + "; ".join(sorted(set(u["desc"] for u in unsupported)))[:400])
        return "inconclusive", [], notes
    bad_cov = [c for c in parsed["covers"] if c["status"] != "SATISFIED"]
    if bad_cov:
        notes.append("cover witness not satisfied (vacuity guard): " + "; ".join(c["desc"] for c in bad_cov)[:400])
        return "inconclusive", [], notes
    if parsed["successful"]:
        return "pass", [], notes
    return "inconclusive", [], ["FAILED without a classified failing check"]


def run_harness(overlay, target_dir, h, logdir, timeout, mem_gb):
    """h: dict(fqn, features, unwindset_ioerr=True, ffi_oracle=False, extra_cbmc=[]) -> result dict"""
    os.makedirs(logdir, exist_ok=True)
    short = ".".join(h["fqn"].split("::")[-3:])
    t0 = time.time()
    cmd = base_cmd(target_dir, h.get("features"), h["fqn"])
    cbmc_args = list(h.get("extra_cbmc", []))
    phases = []
    if h.get("unwindset_ioerr", True):
        log0 = os.path.join(logdir, short + ".codegen.log")
        rc, to, dt = _run(cmd + ["--only-codegen"], overlay, log0, timeout, mem_gb)
        phases.append(("codegen", dt))
        txt = open(log0, errors="replace").read()
        if rc != 0 or to:
            p = parse_log(txt)
            p["compile_error"] = True
            return {"harness": h["fqn"], "verdict": "inconclusive", "failures": [],
                    "notes": ["codegen failed (rc=%s timeout=%s) see %s" % (rc, to, log0)],
                    "stats": p, "wall_s": time.time() - t0, "log": log0}
        names = find_mangled(target_dir, h["fqn"], IOERR_DROP)
        for n in names:
            cbmc_args += ["--unwindset", n + ":1"]
        # further recursions bounded explicitly (their unwinding assertions stay on)
        for pretty, bound in (h.get("unwindset") or {}).items():
            for n in find_mangled(target_dir, h["fqn"], pretty):
                cbmc_args += ["--unwindset", "%s:%d" % (n, bound)]
    log = os.path.join(logdir, short + ".log")
    full = cmd + (["--cbmc-args"] + cbmc_args if cbmc_args else [])
    left = max(30, timeout - (time.time() - t0))
    rc, to, dt = _run(full, overlay, log, left, mem_gb)
    phases.append(("verify", dt))
    txt = open(log, errors="replace").read()
    parsed = parse_log(txt)
    verdict, real, notes = classify(parsed, to, rc, h.get("ffi_oracle", False))
    parsed_small = {k: v for k, v in parsed.items() if k not in ("failed",)}
    return {"harness": h["fqn"], "verdict": verdict, "failures": real, "notes": notes,
            "stats": parsed_small, "wall_s": time.time() - t0, "log": log, "cmd": " ".join(full),
            "cbmc_args": cbmc_args}


def playback_print(overlay, target_dir, h, logdir, timeout, mem_gb, prop=None):
    """re-run a failing harness with concrete playback (restricted to the failing CBMC property:
    a trace for every property of a large harness takes 15 min and 40 GB); returns the generated
    unit test text"""
    short = ".".join(h["fqn"].split("::")[-3:])
    cmd = base_cmd(target_dir, h.get("features"), h["fqn"])
    cmd += ["-Z", "concrete-playback", "--concrete-playback=print"]
    cbmc_args = list(h.get("extra_cbmc", []))
    if prop:
        cbmc_args += ["--property", prop]
    if h.get("unwindset_ioerr", True):
        for n in find_mangled(target_dir, h["fqn"], IOERR_DROP):
            cbmc_args += ["--unwindset", n + ":1"]
        for pretty, bound in (h.get("unwindset") or {}).items():
            for n in find_mangled(target_dir, h["fqn"], pretty):
                cbmc_args += ["--unwindset", "%s:%d" % (n, bound)]
    if cbmc_args:
        cmd += ["--cbmc-args"] + cbmc_args
    log = os.path.join(logdir, short + ".playback.log")
    rc, to, dt = _run(cmd, overlay, log, timeout, mem_gb)
    txt = open(log, errors="replace").read()
    tests = re.findall(r"```\n(/// Test generated for harness.*?)```", txt, re.S)
    if not tests:
        tests = re.findall(r"(#\[test\]\s*fn kani_concrete_playback_\w+\(\) \{.*?\n\})", txt, re.S)
    return tests, log
