"""Confirm a Kani counterexample on the real code before it is reported.

Step 1: re-run the failing harness with `-Z concrete-playback --concrete-playback=print`; Kani
        prints a unit test that feeds the solver's concrete values to the harness.
Step 2: the test is appended to the harness file in a REAL-transport overlay of /repo's current
        tree (model-transport harnesses use the same harness source; the ghost device is replaced
        by a real O_DIRECT pipe), built and executed natively with `cargo kani playback`.
The violation is reported only if the native run fails with one of the same assertion messages.
"""
import os
import re
import shutil
import subprocess

import kani
import overlay

VERIF = os.path.dirname(os.path.dirname(os.path.abspath(__file__)))


def confirm(scratch, ovs, target_dir, h, result, mine, logdir):
    out = {"ran": False, "reproduced": False, "note": ""}
    tests, plog = kani.playback_print(ovs[h["flavour"]], target_dir, h, logdir, h.get("timeout_thorough", 3600), 40,
                                      prop=mine[0]["name"])
    if not tests:
        # CBMC did not recognise the property id (closures / generic instances are renamed by Kani's
        # pretty printer): fall back to a full trace run (slow: minutes, tens of GB)
        tests, plog = kani.playback_print(ovs[h["flavour"]], target_dir, h, logdir, 3000, 44, prop=None)
    if not tests:
        out["note"] = "Kani produced no concrete playback test (see %s)" % plog
        return out
    # prefer the generated test whose header names one of the failing checks attributed to us
    test_src = tests[0]
    for t in tests:
        if any(f["desc"][:50] in t for f in mine):
            test_src = t
            break
    m = re.search(r"fn (kani_concrete_playback_\w+)", test_src)
    tname = m.group(1)
    # the generated test names the harness by its last path segment; qualify it
    last = h["fn"].split("::")[-1]
    test_src = re.sub(r"(concrete_playback_run\(concrete_vals,\s*)%s\)" % re.escape(last), r"\1%s)" % h["fn"], test_src)
    # harness files whose environment is provided by kani::stub (absent in a native build) offer
    # `native_replay_init()`, which switches them to a real equivalent (e.g. a packet-mode pipe)
    first = h["files"][0]
    hsrc = "" if os.path.basename(first).startswith("GEN:") else open(os.path.join(VERIF, first)).read()
    if "fn native_replay_init" in hsrc:
        test_src = test_src.replace("kani::concrete_playback_run(", "native_replay_init();\n    kani::concrete_playback_run(", 1)
    out["playback_test"] = test_src[:6000]
    # native overlay: same flavour unless the harness asks for replay on the real transport
    rflavour = h.get("replay_flavour", "real" if h["flavour"].startswith("real") else "model")
    rdir = os.path.join(scratch, "replay-" + ".".join(h["fqn"].split("::")[-3:]))
    files = [os.path.join(VERIF, f) for f in h["files"] if not os.path.basename(f).startswith("GEN:")]
    gen = [os.path.join(scratch, os.path.basename(f)[4:]) for f in h["files"] if os.path.basename(f).startswith("GEN:")]
    # harness file first (its module receives the playback test)
    overlay.build(rdir, rflavour, files + gen)
    # append the generated test to the harness module (first file is the one holding the harness)
    hfile = os.path.join(rdir, "verif_harness", "verif_" + os.path.basename(h["files"][0]).replace("GEN:", "").partition("__")[2])
    with open(hfile, "a") as fh:
        fh.write("\n" + test_src + "\n")
    log = os.path.join(logdir, ".".join(h["fqn"].split("::")[-3:]) + ".replay.log")
    cmd = ["cargo", "kani", "playback", "-Z", "concrete-playback"]
    if h.get("features") is not None:
        cmd += ["--no-default-features", "--features", ",".join(h["features"])]
    cmd += ["--", tname, "--nocapture"]
    env = dict(os.environ)
    env["CARGO_NET_OFFLINE"] = "true"
    env["CARGO_TARGET_DIR"] = os.path.join(scratch, "replay-target")
    with open(log, "wb") as fh:
        p = subprocess.run(cmd, cwd=rdir, stdout=fh, stderr=subprocess.STDOUT, env=env, timeout=3600)
    txt = open(log, errors="replace").read()
    out["ran"] = True
    out["replay_log_tail"] = txt[-3000:]
    out["profile"] = "dev (cargo kani playback)"
    if re.search(r"could not compile|error\[E\d+\]", txt) and "test result:" not in txt:
        out["ran"] = False
        out["note"] = "replay crate did not build (see %s)" % log
        shutil.rmtree(rdir, ignore_errors=True)
        return out
    failed = re.search(r"test result: FAILED|panicked at", txt) is not None
    same = any(f["desc"][:60] in txt for f in mine)
    if failed and same:
        out["reproduced"] = True
        out["note"] = "native run of the real code with the solver's values fails with the same assertion"
    elif failed:
        # a native panic inside the real code (overflow, unwrap, index) also confirms an
        # automatic-check failure
        auto = [f for f in mine if not re.search(r"\[C\d+\]", f["desc"])]
        if auto:
            out["reproduced"] = True
            out["note"] = "native run panics (automatic check): " + "; ".join(f["desc"] for f in auto)[:300]
        else:
            out["note"] = "native run fails with a different message"
    else:
        out["note"] = "native run passes: counterexample does not reproduce"
    shutil.rmtree(rdir, ignore_errors=True)
    return out
