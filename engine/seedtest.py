#!/usr/bin/env python3
"""Run the registered checks against the seeded changes under /verif/seeded/<name>/patch.diff.
For each seed: git -C /repo apply patch; ./check <property> quick (then thorough if quick missed
and --thorough given); git -C /repo checkout -- .  Results -> /verif/seeded/RESULTS.json"""
import json, os, re, subprocess, sys, time
VERIF = os.path.dirname(os.path.dirname(os.path.abspath(__file__)))
seeds = sorted(d for d in os.listdir(os.path.join(VERIF, "seeded")) if os.path.isdir(os.path.join(VERIF, "seeded", d)))
only = [a for a in sys.argv[1:] if not a.startswith("--")]
thorough = "--thorough" in sys.argv
resf = os.path.join(VERIF, "seeded", "RESULTS.json")
res = json.load(open(resf)) if os.path.exists(resf) else {}
for s in seeds:
    if only and s not in only:
        continue
    prop = s.split("-")[0]
    patch = os.path.join(VERIF, "seeded", s, "patch.diff")
    assert subprocess.run(["git", "-C", "/repo", "status", "--porcelain", "--untracked-files=no"], capture_output=True, text=True).stdout.strip() == "", "/repo not clean"
    r = subprocess.run(["git", "-C", "/repo", "apply", patch], capture_output=True, text=True)
    if r.returncode != 0:
        res[s] = {"error": "patch does not apply: " + r.stderr[:300]}
        continue
    try:
        out = {}
        for tier in (["quick", "thorough"] if thorough else ["quick"]):
            t0 = time.time()
            p = subprocess.run(["./check", prop, tier], cwd=VERIF, capture_output=True, text=True)
            viol = re.findall(r"^VIOLATION property=\S+ replay=\S+", p.stdout, re.M)
            fails = re.findall(r"^failing checks in .*", p.stdout, re.M)
            out[tier] = {"exit": p.returncode, "violations": viol, "failing": fails[:6], "wall_s": round(time.time() - t0),
                         "tail": p.stdout.strip().splitlines()[-3:]}
            print(s, tier, "exit", p.returncode, viol[:1], flush=True)
            if p.returncode == 1:
                break
        res[s] = out
    finally:
        subprocess.run(["git", "-C", "/repo", "checkout", "--", "."], check=True)
    json.dump(res, open(resf, "w"), indent=1)
