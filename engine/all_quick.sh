#!/bin/bash
# development helper: run every registered quick check once, sequentially, on /repo itself
cd "$(dirname "$0")/.."
for id in ${@:-C13 C18 C17 C12 C06 C04 C02 C03 C14 C16 C07 C01}; do
  s=$(date +%s)
  ./check $id quick > /var/tmp/seedlogs/final-$id.log 2>&1
  echo "$id exit=$? $(( $(date +%s) - s ))s $(tail -n 1 /var/tmp/seedlogs/final-$id.log)"
done
