#!/bin/bash
# usage: krun.sh <overlay-dir> <log> <timeout-s> <mem-gb> <harness> [extra cargo-kani args...]
# runs one harness under a wall-clock and address-space limit; never leaves cbmc behind.
ov="$1"; log="$2"; to="$3"; mem="$4"; h="$5"; shift 5
cd "$ov" || exit 97
ulimit -v $((mem*1024*1024))
export CARGO_NET_OFFLINE=true
setsid timeout -k 5 "$to" cargo kani -Z stubbing -Z unstable-options --harness "$h" "$@" > "$log" 2>&1
rc=$?
# kill stragglers of this session's cbmc for this overlay
pkill -9 -f "cbmc .*$(basename "$ov")" 2>/dev/null
exit $rc
