#!/usr/bin/env python3
"""Development helper: run checks against several seeded changes IN PARALLEL without touching /repo.
Each seed gets a scratch git worktree of /repo's HEAD (+ uncommitted tree is NOT included) with the
patch applied; the check runs with VERIF_REPO pointing at it and VERIF_EVIDENCE at a scratch dir.
usage: seedpar.py [--tier quick|thorough] [--only <substr>] [--par N] [--jobs J] seed[:PROP[:only]] ...
Results are merged into seeded/RESULTS.json under key <seed> / <tier>[+only]."""
import concurrent.futures as cf, json, os, re, shutil, subprocess, sys, time
VERIF = os.path.dirname(os.path.dirname(os.path.abspath(__file__)))
args = sys.argv[1:]
tier, par, jobs, gonly = "quick", 3, 5, None
seeds = []
while args:
    a = args.pop(0)
    if a == "--tier": tier = args.pop(0)
    elif a == "--par": par = int(args.pop(0))
    elif a == "--jobs": jobs = int(args.pop(0))
    elif a == "--only": gonly = args.pop(0)
    else: seeds.append(a)
resf = os.path.join(VERIF, "seeded", "RESULTS.json")

def one(spec):
    parts = spec.split(":")
    s = parts[0]
    prop = parts[1] if len(parts) > 1 and parts[1] else s.split("-")[0]
    only = parts[2] if len(parts) > 2 else gonly
    wt = "/var/tmp/seedrepo-%s-%d" % (s, os.getpid())
    ev = "/var/tmp/seedev-%s-%d" % (s, os.getpid())
    subprocess.run(["git", "-C", "/repo", "worktree", "add", "-q", "--detach", wt, "HEAD"], check=True)
    try:
        shutil.copy("/repo/Cargo.lock", wt)
        r = subprocess.run(["git", "-C", wt, "apply", os.path.join(VERIF, "seeded", s, "patch.diff")], capture_output=True, text=True)
        if r.returncode != 0:
            return s, {"error": "patch does not apply: " + r.stderr[:300]}
        env = dict(os.environ, VERIF_REPO=wt, VERIF_EVIDENCE=ev, VERIF_JOBS=str(jobs))
        cmd = ["python3", os.path.join(VERIF, "engine", "run.py"), prop, "--tier", tier] + (["--only", only] if only else [])
        t0 = time.time()
        p = subprocess.run(cmd, cwd=VERIF, capture_output=True, text=True, env=env)
        viol = re.findall(r"^VIOLATION property=\S+ replay=\S+", p.stdout, re.M)
        fails = re.findall(r"^failing checks in .*", p.stdout, re.M)
        inc = re.findall(r"^INCONCLUSIVE .*", p.stdout, re.M)
        return s, {"exit": p.returncode, "violations": [re.sub(r"/var/tmp/seedev-[^/]*/", "evidence/", v) for v in viol], "failing": fails[:6],
                   "inconclusive": [i[:200] for i in inc[:4]], "wall_s": round(time.time() - t0), "property": prop, "only": only,
                   "tail": p.stdout.strip().splitlines()[-2:]}
    finally:
        subprocess.run(["git", "-C", "/repo", "worktree", "remove", "--force", wt])
        shutil.rmtree(ev, ignore_errors=True)

with cf.ThreadPoolExecutor(max_workers=par) as ex:
    for s, out in ex.map(one, seeds):
        res = json.load(open(resf)) if os.path.exists(resf) else {}
        key = tier + ("+" + out["only"] if out.get("only") else "")
        res.setdefault(s, {})[key] = out
        json.dump(res, open(resf, "w"), indent=1)
        print(s, key, "exit", out.get("exit"), out.get("violations", [])[:2], out.get("failing", [])[:2], out.get("inconclusive", [])[:2], out.get("error", ""), flush=True)
