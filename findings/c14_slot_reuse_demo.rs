// Native demonstration (public API only) of the C14 slot-reuse defect:
// a mount created WITHOUT an id mapping inherits the per-mount mapping of an earlier mount that
// occupied the same superblock slot and was vacated by an over-mount.
// Run: copy to <repo>/tests/c14_slot_reuse_demo.rs and `cargo test --offline --test c14_slot_reuse_demo`
use std::any::Any;
use std::ffi::CString;
use std::io;

use fuse_backend_rs::abi::fuse_abi::stat64;
use fuse_backend_rs::api::filesystem::{Context, Entry, FileSystem};
use fuse_backend_rs::api::{BackendFileSystem, Vfs, VfsOptions};

struct Fs {
    root_uid: u32,
}
impl FileSystem for Fs {
    type Inode = u64;
    type Handle = u64;
}
impl BackendFileSystem for Fs {
    fn mount(&self) -> io::Result<(Entry, u64)> {
        let mut attr: stat64 = unsafe { std::mem::zeroed() };
        attr.st_ino = 1;
        attr.st_mode = libc::S_IFDIR | 0o755;
        attr.st_uid = self.root_uid;
        attr.st_gid = self.root_uid;
        Ok((Entry { inode: 1, attr, ..Default::default() }, 1 << 40))
    }
    fn as_any(&self) -> &dyn Any {
        self
    }
}

fn root_uid_seen_by_client(vfs: &Vfs, name: &str) -> u32 {
    let ctx = Context::default();
    let e = vfs.lookup(&ctx, 1u64.into(), &CString::new(name).unwrap()).unwrap();
    e.attr.st_uid
}

#[test]
fn mapping_less_mount_does_not_inherit_a_previous_occupants_mapping() {
    let vfs = Vfs::new(VfsOptions::default()); // no global mapping
    let a = vfs.mount_with_id_mapping(Box::new(Fs { root_uid: 1005 }), "/a", Some((1000, 2000, 10))).unwrap();
    assert_eq!(root_uid_seen_by_client(&vfs, "a"), 2005); // own mapping applies
    let b = vfs.mount(Box::new(Fs { root_uid: 1005 }), "/a").unwrap(); // over-mount: slot `a` vacated
    assert_ne!(a, b);
    // cycle the index allocator once around (mount + umount), until slot `a` is handed out again
    let mut reused = None;
    for i in 0..600 {
        let p = format!("/t{}", i);
        let idx = vfs.mount(Box::new(Fs { root_uid: 1005 }), &p).unwrap();
        if idx == a {
            reused = Some(p);
            break;
        }
        vfs.umount(&p).unwrap();
    }
    let p = reused.expect("slot of the over-mounted filesystem is reused after wrap-around");
    // the new occupant was mounted WITHOUT a mapping and there is no global one: ids pass unchanged
    assert_eq!(root_uid_seen_by_client(&vfs, &p[1..]), 1005, "mount without a mapping inherited the stale per-mount mapping of its slot");
}
