// C08 (narrow): PassthroughFs::forget_one as ONE step on an InodeStore holding one inode with an
// arbitrary lookup count. The harness keeps its own Arc to the InodeData so that removing the
// entry never drops the File (close(2) is a foreign call); only `cfg.use_host_ino` of the
// filesystem object is read by forget_one, so only that field of an otherwise uninitialised
// instance is written.
#![allow(unused_imports, static_mut_refs, dead_code, clippy::all)]
use super::*;
use std::mem::MaybeUninit;
use std::os::unix::io::FromRawFd;

pub fn empty_string(_: std::fmt::Arguments<'_>) -> String {
    String::new()
}

type Fs = PassthroughFs<()>;

/// stored: inode number held by the store (5 or the root); target: 0 = the stored inode,
/// 1 = an inode number that is not in the store
pub fn forget_step(stored: Inode, target_absent: bool) {
    let use_host_ino: bool = kani::any();
    let mut fs = MaybeUninit::<Fs>::uninit();
    unsafe { std::ptr::addr_of_mut!((*fs.as_mut_ptr()).cfg.use_host_ino).write(use_host_ino) };
    let fsr = unsafe { &*fs.as_ptr() };

    let mut store = InodeStore::default();
    let id = InodeId { ino: kani::any(), dev: 7, mnt: 3 };
    let curr: u64 = kani::any();
    let file = unsafe { File::from_raw_fd(100) };
    let data = Arc::new(InodeData::new(stored, InodeHandle::File(file), curr, id, libc::S_IFREG));
    let keep = data.clone();
    store.insert(data);
    let count: u64 = kani::any();
    let target: Inode = if target_absent { stored + 1 } else { stored };

    fsr.forget_one(&mut store, target, count);

    let now = keep.refcount.load(Ordering::Acquire);
    if target_absent || stored == fuse::ROOT_ID {
        assert!(now == curr, "[C08] forgetting the root or an unknown inode number changes no reference count");
        assert!(store.get(&stored).is_some(), "[C08] the root can never be forgotten; unknown numbers leave the store untouched");
    } else {
        let want = if curr >= count { curr - count } else { 0 };
        assert!(now == want, "[C08] forget subtracts the forgotten count, never below zero");
        if want > 0 {
            assert!(matches!(store.get(&stored), Some(d) if Arc::ptr_eq(d, &keep)), "[C08] while the count is positive the inode number keeps resolving to the same inode");
            assert!(store.inode_by_id(&id) == Some(&stored), "[C08] identity map untouched while referenced");
        } else {
            assert!(store.get(&stored).is_none(), "[C08] when the count reaches zero the number stops resolving");
            let keep_mapping = !use_host_ino || (id.ino as u64) > MAX_HOST_INO;
            assert!((store.inode_by_id(&id) == Some(&stored)) == keep_mapping,
                "[C08] the identity -> number record survives the forget exactly for allocated (virtual) inode numbers, so a later lookup gets the same number");
        }
    }
    kani::cover!(!target_absent && stored != fuse::ROOT_ID && curr > count && count > 0, "partial forget");
    kani::cover!(!target_absent && stored != fuse::ROOT_ID && count > curr && curr > 0, "over-forget saturates");
    std::mem::forget(store);
    std::mem::forget(keep);
}

macro_rules! ph {
    ($name:ident, $body:expr) => {
        #[kani::proof]
        #[kani::unwind(14)]
        #[kani::stub(std::fmt::format, empty_string)]
        pub fn $name() {
            $body
        }
    };
}
ph!(c08_forget_step, forget_step(5, false));
ph!(c08_forget_root, forget_step(fuse::ROOT_ID, false));
ph!(c08_forget_unknown, forget_step(5, true));
