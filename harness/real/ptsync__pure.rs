// Passthrough kernels that do not touch the host: seal_size_check (C18), getdents64 cookie helpers
// and the per-handle cookie cache (C16), HandleMap (C15).  Real overlay; attached under
// passthrough::sync_io so that private methods are reachable.
#![allow(unused_imports, static_mut_refs, dead_code, clippy::all)]
use super::*;
use std::mem::MaybeUninit;
use std::sync::atomic::AtomicBool;

pub fn noop() {}
pub fn empty_string(_: std::fmt::Arguments<'_>) -> String {
    String::new()
}
pub fn fixed_random_state() -> std::hash::RandomState {
    unsafe { std::mem::transmute::<(u64, u64), std::hash::RandomState>((0x0123_4567_89ab_cdef, 0x0fed_cba9_8765_4321)) }
}

type Fs = PassthroughFs<()>;

fn errno(r: &io::Result<()>) -> i32 {
    match r {
        Ok(()) => 0,
        Err(e) => e.raw_os_error().unwrap_or(-1),
    }
}

// ============================================================================ C18 seal_size_check
/// `seal_size_check` never reads `self`: an uninitialised instance is passed.
fn seal(opcode: Opcode, file_size: u64, offset: u64, size: u64, mode: i32) -> io::Result<()> {
    let fs = MaybeUninit::<Fs>::uninit();
    let r = unsafe { &*fs.as_ptr() };
    r.seal_size_check(opcode, file_size, offset, size, mode)
}

const KEEP: i32 = libc::FALLOC_FL_KEEP_SIZE;
const UNSHARE: i32 = libc::FALLOC_FL_UNSHARE_RANGE;
const PUNCH: i32 = libc::FALLOC_FL_PUNCH_HOLE;
const ZERO: i32 = libc::FALLOC_FL_ZERO_RANGE;
const COLLAPSE: i32 = libc::FALLOC_FL_COLLAPSE_RANGE;
const INSERT: i32 = libc::FALLOC_FL_INSERT_RANGE;

#[kani::proof]
#[kani::stub(std::fmt::format, empty_string)]
pub fn c18_seal_write() {
    let (fsz, off, sz): (u64, u64, u64) = (kani::any(), kani::any(), kani::any());
    let mode: i32 = kani::any();
    let r = seal(Opcode::Write, fsz, off, sz, mode);
    let end = (off as u128) + (sz as u128);
    let within = end <= fsz as u128;
    // soundness: an accepted write cannot change the size; completeness: a write that stays
    // within the current size is accepted
    assert!(r.is_ok() == within, "[C18] a sealed write is accepted exactly when offset+size stays within the current size (no wrap-around)");
    if !within {
        assert!(errno(&r) == if end > u64::MAX as u128 { libc::EINVAL } else { libc::EPERM }, "[C18] refused writes: EINVAL on overflow, EPERM beyond the size");
    }
    kani::cover!(within && sz > 0, "accepted");
    kani::cover!(end == fsz as u128 + 1, "one byte past the end");
    kani::cover!(end > u64::MAX as u128, "wraps");
    std::mem::forget(r);
}

#[kani::proof]
#[kani::stub(std::fmt::format, empty_string)]
pub fn c18_seal_fallocate() {
    let (fsz, off, sz): (u64, u64, u64) = (kani::any(), kani::any(), kani::any());
    let mode: i32 = kani::any();
    let r = seal(Opcode::Fallocate, fsz, off, sz, mode);
    let end = (off as u128) + (sz as u128);
    let within = end <= fsz as u128;
    let op = mode & !(KEEP | UNSHARE);
    let size_preserving = op == 0 || op == PUNCH || op == ZERO;
    assert!(r.is_ok() == (within && size_preserving), "[C18] sealed fallocate is accepted exactly for allocate/punch/zero ranges within the current size");
    if end > u64::MAX as u128 {
        assert!(errno(&r) == libc::EINVAL, "[C18] overflowing range refused EINVAL");
    } else if op == COLLAPSE || op == INSERT {
        assert!(errno(&r) == libc::EPERM, "[C18] collapse/insert range always refused");
    } else if !size_preserving {
        assert!(errno(&r) == libc::EINVAL, "[C18] unknown fallocate mode refused EINVAL");
    } else if !within {
        assert!(errno(&r) == libc::EPERM, "[C18] allocation beyond the size refused EPERM");
    }
    kani::cover!(r.is_ok() && op == PUNCH, "punch accepted");
    kani::cover!(op == INSERT, "insert");
    kani::cover!(size_preserving && end == fsz as u128 + 1, "one byte past the end");
    std::mem::forget(r);
}

#[kani::proof]
#[kani::stub(std::fmt::format, empty_string)]
pub fn c18_seal_other_opcodes() {
    let (fsz, off, sz): (u64, u64, u64) = (kani::any(), kani::any(), kani::any());
    kani::assume((off as u128) + (sz as u128) <= u64::MAX as u128);
    let which: u8 = kani::any();
    let op = match which % 4 {
        0 => Opcode::Read,
        1 => Opcode::Setattr,
        2 => Opcode::Create,
        _ => Opcode::Lseek,
    };
    let r = seal(op, fsz, off, sz, kani::any());
    assert!(errno(&r) == libc::ENOSYS, "[C18] the seal check only vouches for WRITE and FALLOCATE");
    kani::cover!(true, "reached");
    std::mem::forget(r);
}

// ============================================================================ C16 getdents64 helpers
const H: usize = 19; // size_of::<LinuxDirent64>() (packed header)

fn rd_off(b: &[u8], at: usize) -> u64 {
    u64::from_le_bytes([b[at + 8], b[at + 9], b[at + 10], b[at + 11], b[at + 12], b[at + 13], b[at + 14], b[at + 15]])
}
fn rd_reclen(b: &[u8], at: usize) -> usize {
    u16::from_le_bytes([b[at + 16], b[at + 17]]) as usize
}

/// last_cookie_in_buf on ARBITRARY bytes: never panics / reads out of bounds, and returns the
/// d_off of the last record of the well-formed prefix chain.
#[kani::proof]
#[kani::unwind(6)]
pub fn c16_last_cookie_arbitrary() {
    const N: usize = 72;
    let buf: [u8; N] = kani::any();
    let len: usize = kani::any();
    kani::assume(len <= N);
    let got = Fs::last_cookie_in_buf(&buf[..len]);
    // reference walk
    let mut at = 0usize;
    let mut want = None;
    let mut steps = 0;
    while steps < 4 && len - at >= H {
        let rl = rd_reclen(&buf, at);
        if rl < H || rl > len - at {
            break;
        }
        want = Some(rd_off(&buf, at));
        at += rl;
        steps += 1;
    }
    assert!(got == want, "[C16] last_cookie_in_buf is the d_off of the last complete record");
    kani::cover!(steps == 3, "three records");
    kani::cover!(steps == 0 && len >= H, "malformed first record");
}

/// skip_to_cookie on a well-formed chain of three records (record lengths 24/32/24, every
/// d_off symbolic): found iff some record carries the cookie; afterwards the buffer is exactly the
/// suffix following the FIRST such record.
#[kani::proof]
#[kani::unwind(90)]
pub fn c16_skip_to_cookie_chain() {
    const L: [usize; 3] = [24, 32, 24];
    const N: usize = 80;
    let mut raw: [u8; N] = kani::any();
    let mut at = 0;
    let mut k = 0;
    while k < 3 {
        raw[at + 16] = L[k] as u8;
        raw[at + 17] = 0;
        at += L[k];
        k += 1;
    }
    let offs = [rd_off(&raw, 0), rd_off(&raw, 24), rd_off(&raw, 56)];
    let mut buf: Vec<u8> = Vec::with_capacity(N);
    buf.extend_from_slice(&raw);
    let cookie: u64 = kani::any();
    let found = Fs::skip_to_cookie(&mut buf, cookie);
    let first = if offs[0] == cookie { Some(0) } else if offs[1] == cookie { Some(1) } else if offs[2] == cookie { Some(2) } else { None };
    assert!(found == first.is_some(), "[C16] skip_to_cookie finds the cookie iff a record carries it");
    match first {
        None => {
            assert!(buf.len() == N, "[C16] a cookie that is not in the buffer leaves the buffer untouched");
        }
        Some(i) => {
            let start = if i == 0 { 24 } else if i == 1 { 56 } else { 80 };
            assert!(buf.len() == N - start, "[C16] the buffer resumes right after the matched entry: nothing skipped, nothing repeated");
            let mut j = 0;
            while j < N - start {
                assert!(buf[j] == raw[start + j], "[C16] the remaining entries are unchanged");
                j += 1;
            }
        }
    }
    kani::cover!(first == Some(1), "middle entry");
    kani::cover!(first == Some(2), "last entry");
    kani::cover!(first.is_none(), "not found");
    std::mem::forget(buf);
}

// ============================================================================ cookie cache / HandleMap
/// A PassthroughFs of which only `handle_map` and `no_opendir` are initialised (the cookie
/// helpers read nothing else).
fn partial_fs(no_opendir: bool) -> MaybeUninit<Fs> {
    let mut fs = MaybeUninit::<Fs>::uninit();
    unsafe {
        let p = fs.as_mut_ptr();
        std::ptr::addr_of_mut!((*p).handle_map).write(HandleMap::new());
        std::ptr::addr_of_mut!((*p).no_opendir).write(AtomicBool::new(no_opendir));
    }
    fs
}

fn cached(fs: &Fs, h: u64) -> Option<u64> {
    fs.handle_map.cookies.lock().unwrap().get(&h).copied()
}

/// consume_cached_cookie: a hit iff the cached cookie of THAT handle equals the offset; the entry
/// is consumed either way (a position is only valid for the very next read); other handles are
/// untouched; never a hit in no_opendir mode.
#[kani::proof]
#[kani::unwind(20)]
#[kani::stub(std::hash::RandomState::new, fixed_random_state)]
pub fn c16_cookie_cache_step() {
    let no_opendir: bool = kani::any();
    let m = partial_fs(no_opendir);
    let fs = unsafe { &*m.as_ptr() };
    let (c1, c2, off): (u64, u64, u64) = (kani::any(), kani::any(), kani::any());
    fs.handle_map.set_cookie(11, c1);
    fs.handle_map.set_cookie(12, c2);
    let hit = fs.consume_cached_cookie(11, off);
    if no_opendir {
        assert!(!hit, "[C16] no cached position is ever used in no_opendir mode");
    } else {
        assert!(hit == (c1 == off), "[C16] the lseek is skipped only when resuming exactly from the recorded position of this handle");
        assert!(cached(fs, 11).is_none(), "[C16] a recorded position is consumed by the next read, hit or miss");
    }
    assert!(cached(fs, 12) == Some(c2), "[C16] other handles' positions are untouched");
    // a second resume from the same cookie must not hit again (the fd has moved meanwhile)
    if !no_opendir {
        assert!(!fs.consume_cached_cookie(11, off), "[C16] a consumed position is not reused");
    }
    kani::cover!(hit, "hit");
    kani::cover!(!no_opendir && !hit, "miss");
}

/// cache_cookie records the d_off of the last record; nothing for an empty buffer or no_opendir
#[kani::proof]
#[kani::unwind(20)]
#[kani::stub(std::hash::RandomState::new, fixed_random_state)]
pub fn c16_cache_cookie_records_last() {
    let no_opendir: bool = kani::any();
    let m = partial_fs(no_opendir);
    let fs = unsafe { &*m.as_ptr() };
    let mut raw: [u8; 48] = kani::any();
    raw[16] = 24;
    raw[17] = 0;
    raw[24 + 16] = 24;
    raw[24 + 17] = 0;
    let empty: bool = kani::any();
    fs.cache_cookie(11, if empty { &raw[..0] } else { &raw[..] });
    let want = if no_opendir || empty { None } else { Some(rd_off(&raw, 24)) };
    assert!(cached(fs, 11) == want, "[C16] the position recorded for a handle is the d_off of the last entry read");
    kani::cover!(want.is_some(), "recorded");
    kani::cover!(empty && !no_opendir, "end of directory");
}
