// C13: Opcode::from is total; kernel opcodes map to themselves, everything else to MaxOpcode.
use super::*;

#[kani::proof]
fn c13_opcode_total() {
    let x: u32 = kani::any();
    let op = Opcode::from(x) as u32;
    let kernel = (1..=49).contains(&x) && x != 7 && x != 19;
    if kernel {
        assert!(op == x, "kernel opcode maps to itself");
    } else {
        assert!(op == Opcode::MaxOpcode as u32, "unknown opcode maps to MaxOpcode");
    }
    kani::cover!(kernel, "kernel opcode reached");
    kani::cover!(!kernel, "non-kernel opcode reached");
}
