// C04 / C17: the real private `IoBuffers` (segment accounting, geometry handed to consumers,
// split_at, dirty marking) built directly from VolatileSlices over stack arrays.
#![allow(unused_imports, static_mut_refs, dead_code, clippy::all)]
use super::*;
use std::collections::VecDeque;
use vm_memory::bitmap::{Bitmap, BitmapSlice, WithBitmapSlice};
use vm_memory::VolatileSlice;

pub fn noop() {}
pub fn empty_string(_: std::fmt::Arguments<'_>) -> String {
    String::new()
}

// ---------------------------------------------------------------- recording bitmap (C17)
#[derive(Clone, Debug)]
pub struct RecBitmap {
    base: usize,
}
pub static mut MARKS: [(usize, usize); 8] = [(0, 0); 8];
pub static mut NMARKS: usize = 0;

impl<'a> WithBitmapSlice<'a> for RecBitmap {
    type S = RecBitmap;
}
impl BitmapSlice for RecBitmap {}
impl Bitmap for RecBitmap {
    fn mark_dirty(&self, offset: usize, len: usize) {
        unsafe {
            if NMARKS < 8 {
                MARKS[NMARKS] = (self.base + offset, len);
            }
            NMARKS += 1;
        }
    }
    fn dirty_at(&self, _offset: usize) -> bool {
        false
    }
    fn slice_at(&self, offset: usize) -> RecBitmap {
        RecBitmap { base: self.base + offset }
    }
}

/// is guest byte `g` covered by a recorded (non-empty) mark?
fn marked(g: usize) -> bool {
    unsafe {
        let mut i = 0;
        while i < NMARKS && i < 8 {
            let (o, l) = MARKS[i];
            if g >= o && g < o + l {
                return true;
            }
            i += 1;
        }
    }
    false
}

fn two<'a, S: BitmapSlice>(a: &'a mut [u8], b: &'a mut [u8], sa: S, sb: S) -> IoBuffers<'a, S> {
    let mut q = VecDeque::new();
    unsafe {
        q.push_back(VolatileSlice::with_bitmap(a.as_mut_ptr(), a.len(), sa, None));
        q.push_back(VolatileSlice::with_bitmap(b.as_mut_ptr(), b.len(), sb, None));
    }
    IoBuffers { buffers: q, bytes_consumed: 0 }
}

// ---------------------------------------------------------------- C04: consume geometry & accounting
/// segments of LA and LB bytes; symbolic `count`; the consumer sees exactly the prefix geometry of
/// the concatenation truncated to `count` and consumes a symbolic k (or fails).
pub fn consume_geom<const LA: usize, const LB: usize>() {
    let mut a = [0u8; LA];
    let mut b = [0u8; LB];
    let (pa, pb) = (a.as_ptr() as usize, b.as_ptr() as usize);
    let mut io = two(&mut a, &mut b, (), ());
    let total = LA + LB;
    assert!(io.available_bytes() == total && io.bytes_consumed() == 0, "[C04] fresh buffers: everything available");
    let count: usize = kani::any();
    let k: usize = kani::any();
    let fail: bool = kani::any();
    let offered = if count < total { count } else { total };
    kani::assume(k <= offered);
    let r = io.consume_for_read(count, |bufs| {
        // geometry: slices are the segments in order, none skipped or repeated, truncated to count
        let mut sum = 0;
        let mut i = 0;
        while i < bufs.len() {
            sum += bufs[i].len();
            i += 1;
        }
        assert!(sum == offered, "[C04] the consumer is offered at most `count` bytes and never more than available");
        if LA > 0 && offered > 0 {
            assert!(bufs[0].as_ptr() as usize == pa && bufs[0].len() == if offered < LA { offered } else { LA }, "[C04] first slice is the first segment (truncated to count)");
        }
        if offered > LA && LA > 0 {
            assert!(bufs.len() == 2 && bufs[1].as_ptr() as usize == pb && bufs[1].len() == offered - LA, "[C04] second slice continues with the second segment, in order");
        }
        if fail {
            Err(io::Error::from_raw_os_error(libc::EIO))
        } else {
            Ok(k)
        }
    });
    if offered == 0 || (LA == 0 && LB == 0) {
        // nothing to offer: Ok(0), consumer may not even be called
        assert!(io.available_bytes() + io.bytes_consumed() == total, "[C04] counters add up");
    } else if fail {
        assert!(r.is_err(), "[C04] a failing consumer fails the operation");
        assert!(io.available_bytes() == total && io.bytes_consumed() == 0, "[C04] a failed operation consumes nothing");
    } else {
        assert!(matches!(r, Ok(n) if n == k), "[C04] the operation reports what the consumer consumed");
        assert!(io.bytes_consumed() == k && io.available_bytes() == total - k, "[C04] available + consumed always equals the buffer size");
        // the next operation starts exactly at byte k
        let r2 = io.consume_for_read(usize::MAX, |bufs| {
            if total - k > 0 {
                let want = if k < LA { pa + k } else { pb + (k - LA) };
                assert!(bufs[0].as_ptr() as usize == want, "[C04] the next read continues right after the consumed bytes (nothing skipped, nothing repeated)");
            }
            Ok(0)
        });
        std::mem::forget(r2);
    }
    kani::cover!(LA == 0 || LB == 0 || (!fail && k > LA), "consumed across the segment border");
    kani::cover!(!fail && k == total, "consumed everything");
    kani::cover!(count < total, "count truncates");
    std::mem::forget(r);
    std::mem::forget(io);
}

macro_rules! th {
    ($name:ident, $unwind:expr, $body:expr) => {
        #[kani::proof]
        #[kani::unwind($unwind)]
        #[kani::stub(std::fmt::format, empty_string)]
        pub fn $name() {
            $body
        }
    };
}
th!(c04_consume_8_8, 6, consume_geom::<8, 8>());
th!(c04_consume_1_8, 6, consume_geom::<1, 8>());
th!(c04_consume_8_1, 6, consume_geom::<8, 1>());
th!(c04_consume_0_8, 6, consume_geom::<0, 8>());
th!(c04_consume_8_0, 6, consume_geom::<8, 0>());

/// split_at at a CONCRETE offset (symbolic offsets exhaust the solver) after nothing consumed:
/// both halves' geometry and counters.
pub fn split_geom<const LA: usize, const LB: usize, const OFF: usize>() {
    let mut a = [0u8; LA];
    let mut b = [0u8; LB];
    let (pa, pb) = (a.as_ptr() as usize, b.as_ptr() as usize);
    let mut io = two(&mut a, &mut b, (), ());
    let total = LA + LB;
    let r = io.split_at(OFF);
    if OFF > total {
        assert!(r.is_err(), "[C04] splitting beyond the end fails");
        assert!(io.available_bytes() == total, "[C04] a failed split changes nothing");
    } else {
        let mut other = r.unwrap();
        assert!(io.available_bytes() == OFF && other.available_bytes() == total - OFF, "[C04] split halves add up to the buffer size");
        assert!(other.bytes_consumed() == 0, "[C04] the second half starts unconsumed");
        let r1 = io.consume_for_read(usize::MAX, |bufs| {
            if OFF > 0 {
                assert!(bufs[0].as_ptr() as usize == if LA > 0 { pa } else { pb }, "[C04] first half starts at the beginning");
            }
            Ok(0)
        });
        let r2 = other.consume_for_read(usize::MAX, |bufs| {
            if total - OFF > 0 {
                let want = if OFF < LA { pa + OFF } else { pb + (OFF - LA) };
                assert!(bufs[0].as_ptr() as usize == want, "[C04] second half starts exactly at the split offset");
            }
            Ok(0)
        });
        std::mem::forget(r1);
        std::mem::forget(r2);
        std::mem::forget(other);
    }
    kani::cover!(true, "reached");
    std::mem::forget(io);
}
th!(c04_split_8_8_at0, 6, split_geom::<8, 8, 0>());
th!(c04_split_8_8_at3, 6, split_geom::<8, 8, 3>());
th!(c04_split_8_8_at8, 6, split_geom::<8, 8, 8>());
th!(c04_split_8_8_at11, 6, split_geom::<8, 8, 11>());
th!(c04_split_8_8_at16, 6, split_geom::<8, 8, 16>());
th!(c04_split_8_8_at17, 6, split_geom::<8, 8, 17>());
th!(c04_split_1_8_at1, 6, split_geom::<1, 8, 1>());

// ---------------------------------------------------------------- C17: dirty marking
/// consume(mark_dirty = true): exactly the k bytes the consumer wrote are marked, segment by
/// segment; nothing beyond, nothing when the consumer fails; reads mark nothing.
pub fn dirty<const LA: usize, const LB: usize>(write: bool) {
    let mut a = [0u8; LA];
    let mut b = [0u8; LB];
    const BA: usize = 1000;
    const BB: usize = 5000;
    let mut io = two(&mut a, &mut b, RecBitmap { base: BA }, RecBitmap { base: BB });
    unsafe { NMARKS = 0 };
    let total = LA + LB;
    let count: usize = kani::any();
    let k: usize = kani::any();
    let fail: bool = kani::any();
    let offered = if count < total { count } else { total };
    kani::assume(k <= offered);
    let r = io.consume(write, count, |_bufs| if fail { Err(io::Error::from_raw_os_error(libc::EIO)) } else { Ok(k) });
    let written = if fail || !write { 0 } else { k };
    // every guest byte of both segments: marked iff it is among the first `written` bytes
    let g: usize = kani::any();
    kani::assume((g >= BA && g < BA + LA) || (g >= BB && g < BB + LB));
    let idx = if g < BB { g - BA } else { LA + (g - BB) };
    assert!(marked(g) == (idx < written), "[C17] exactly the guest bytes the server wrote are marked dirty (nothing beyond, nothing for reads or failed writes)");
    kani::cover!(!write || LB == 0 || (!fail && k > LA), "write across the segment border");
    kani::cover!(!write || LA < 2 || (!fail && k > 0 && k < LA), "partial first segment");
    kani::cover!(!write || (!fail && k == total), "everything written");
    kani::cover!(write || k > 0, "read");
    std::mem::forget(r);
    std::mem::forget(io);
}
th!(c17_dirty_write_8_8, 10, dirty::<8, 8>(true));
th!(c17_dirty_write_3_8, 10, dirty::<3, 8>(true));
th!(c17_dirty_read_8_8, 10, dirty::<8, 8>(false));
// zero-length descriptors are legal in a virtio chain: an empty segment in front must not stop the marking
th!(c17_dirty_write_0_8, 10, dirty::<0, 8>(true));
th!(c17_dirty_write_8_0, 10, dirty::<8, 0>(true));

fn three<'a, S: BitmapSlice>(a: &'a mut [u8], b: &'a mut [u8], c: &'a mut [u8], sa: S, sb: S, sc: S) -> IoBuffers<'a, S> {
    let mut q = VecDeque::new();
    unsafe {
        q.push_back(VolatileSlice::with_bitmap(a.as_mut_ptr(), a.len(), sa, None));
        q.push_back(VolatileSlice::with_bitmap(b.as_mut_ptr(), b.len(), sb, None));
        q.push_back(VolatileSlice::with_bitmap(c.as_mut_ptr(), c.len(), sc, None));
    }
    IoBuffers { buffers: q, bytes_consumed: 0 }
}

/// three segments (the middle one may be empty): marked <=> among the first k written bytes
pub fn dirty3<const LA: usize, const LB: usize, const LC: usize>() {
    let mut a = [0u8; LA];
    let mut b = [0u8; LB];
    let mut c = [0u8; LC];
    const BA: usize = 1000;
    const BB: usize = 5000;
    const BC: usize = 9000;
    let mut io = three(&mut a, &mut b, &mut c, RecBitmap { base: BA }, RecBitmap { base: BB }, RecBitmap { base: BC });
    unsafe { NMARKS = 0 };
    let total = LA + LB + LC;
    let count: usize = kani::any();
    let k: usize = kani::any();
    let offered = if count < total { count } else { total };
    kani::assume(k <= offered);
    let r = io.consume(true, count, |_bufs| Ok(k));
    let g: usize = kani::any();
    kani::assume((g >= BA && g < BA + LA) || (g >= BB && g < BB + LB) || (g >= BC && g < BC + LC));
    let idx = if g < BB { g - BA } else if g < BC { LA + (g - BB) } else { LA + LB + (g - BC) };
    assert!(marked(g) == (idx < k), "[C17] exactly the guest bytes the server wrote are marked dirty across three descriptors (an empty descriptor does not end the marking)");
    assert!(io.bytes_consumed() == k && io.available_bytes() == total - k, "[C04] available + consumed always equals the buffer size (three segments)");
    kani::cover!(k > LA + LB, "write reaches the third descriptor");
    std::mem::forget(r);
    std::mem::forget(io);
}
th!(c17_dirty3_4_0_4, 12, dirty3::<4, 0, 4>());
th!(c17_dirty3_3_2_4, 12, dirty3::<3, 2, 4>());

/// after split_at each half marks only its own range
pub fn dirty_split<const OFF: usize>() {
    let mut a = [0u8; 8];
    let mut b = [0u8; 8];
    const BA: usize = 1000;
    const BB: usize = 5000;
    let mut io = two(&mut a, &mut b, RecBitmap { base: BA }, RecBitmap { base: BB });
    let mut other = io.split_at(OFF).unwrap();
    unsafe { NMARKS = 0 };
    let k: usize = kani::any();
    kani::assume(k <= 16 - OFF);
    let r = other.consume(true, usize::MAX, |_bufs| Ok(k));
    let g: usize = kani::any();
    kani::assume((g >= BA && g < BA + 8) || (g >= BB && g < BB + 8));
    let idx = if g < BB { g - BA } else { 8 + (g - BB) };
    assert!(marked(g) == (idx >= OFF && idx < OFF + k), "[C17] a split writer marks exactly the bytes it wrote, at its own position");
    kani::cover!(k > 0, "wrote");
    std::mem::forget(r);
    std::mem::forget(other);
    std::mem::forget(io);
}
th!(c17_dirty_split_at3, 10, dirty_split::<3>());
th!(c17_dirty_split_at8, 10, dirty_split::<8>());
th!(c17_dirty_split_at11, 10, dirty_split::<11>());
