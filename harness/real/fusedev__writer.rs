// C04 (and the fusedev clause of C01): the REAL `FuseDevWriter` over a borrowed stack buffer with
// canaries on both sides; nix::unistd::write / nix::sys::uio::writev are replaced by a ghost
// device that records every call. Split offset and buffer size are concrete per instance, data
// bytes and all lengths are symbolic.
#![allow(unused_imports, static_mut_refs, dead_code, clippy::all)]
use super::*;
use std::io::{IoSlice, Write};

pub fn noop() {}
pub fn empty_string(_: std::fmt::Arguments<'_>) -> String {
    String::new()
}

pub const DEVCAP: usize = 32;
pub static mut DEV: [u8; DEVCAP] = [0; DEVCAP];
pub static mut DEV_LEN: usize = 0;
pub static mut DEV_CALLS: u32 = 0;
pub static mut DEV_REFUSE: bool = false;
/// the device accepts at most this many bytes of a call (short write)
pub static mut DEV_ACCEPT: usize = usize::MAX;
pub static mut DEV_FD: RawFd = -1;
/// Set by the native replay wrapper (engine/replay.py) before a concrete playback test runs: the
/// kani::stub attributes do not exist in a native build, so the ghost device is replaced by a real
/// packet-mode pipe (one packet per write call) that is drained into DEV before the assertions.
pub static mut NATIVE_REPLAY: bool = false;
pub static mut PIPE_R: RawFd = -1;
pub static mut FD_USED: RawFd = 9;
pub fn native_replay_init() {
    unsafe { NATIVE_REPLAY = true };
}
/// descriptor handed to the writer: 9 under Kani (never used: write/writev are stubbed)
fn dev_fd() -> RawFd {
    unsafe {
        if NATIVE_REPLAY {
            if DEV_REFUSE {
                FD_USED = -1;
                return -1;
            }
            let mut fds = [0 as libc::c_int; 2];
            libc::pipe2(fds.as_mut_ptr(), libc::O_DIRECT | libc::O_NONBLOCK);
            PIPE_R = fds[0];
            FD_USED = fds[1];
            return fds[1];
        }
        9
    }
}
/// native replay only: move the packets written to the pipe into the ghost device record
fn dev_sync() {
    unsafe {
        if NATIVE_REPLAY && PIPE_R >= 0 {
            loop {
                let mut tmp = [0u8; 64];
                let n = libc::read(PIPE_R, tmp.as_mut_ptr() as *mut libc::c_void, 64);
                if n < 0 {
                    break;
                }
                DEV_CALLS += 1;
                DEV_FD = FD_USED;
                let mut budget = usize::MAX;
                dev_push(&tmp[..n as usize], &mut budget);
                if n == 0 {
                    break;
                }
            }
        }
    }
}

fn dev_reset() {
    unsafe {
        DEV_LEN = 0;
        DEV_CALLS = 0;
        DEV_REFUSE = false;
        DEV_ACCEPT = usize::MAX;
        DEV_FD = -1;
        FD_USED = 9;
        PIPE_R = -1;
    }
}

fn dev_push(buf: &[u8], budget: &mut usize) -> usize {
    let mut i = 0;
    unsafe {
        while i < buf.len() && *budget > 0 {
            if DEV_LEN < DEVCAP {
                DEV[DEV_LEN] = buf[i];
            }
            DEV_LEN += 1;
            *budget -= 1;
            i += 1;
        }
    }
    i
}

pub fn ghost_write(fd: RawFd, buf: &[u8]) -> nix::Result<usize> {
    unsafe {
        DEV_CALLS += 1;
        DEV_FD = fd;
        if DEV_REFUSE {
            return Err(nix::errno::Errno::EIO);
        }
        let mut budget = DEV_ACCEPT;
        Ok(dev_push(buf, &mut budget))
    }
}

pub fn ghost_writev(fd: RawFd, iov: &[IoSlice<'_>]) -> nix::Result<usize> {
    unsafe {
        DEV_CALLS += 1;
        DEV_FD = fd;
        if DEV_REFUSE {
            return Err(nix::errno::Errno::EIO);
        }
        let mut budget = DEV_ACCEPT;
        let mut n = 0;
        let mut i = 0;
        while i < iov.len() {
            n += dev_push(&iov[i], &mut budget);
            i += 1;
        }
        Ok(n)
    }
}

macro_rules! fh {
    ($name:ident, $unwind:expr, $body:expr) => {
        #[kani::proof]
        #[kani::unwind($unwind)]
        #[kani::stub(std::fmt::format, empty_string)]
        #[kani::stub(nix::unistd::write, ghost_write)]
        #[kani::stub(nix::sys::uio::writev, ghost_writev)]
        pub fn $name() {
            $body
        }
    };
}

pub const LEFT: usize = 4;
pub const CAP: usize = 12;
pub const MEM: usize = LEFT + CAP + 4;
pub const CANARY: u8 = 0xA5;

fn canaries_ok(mem: &[u8; MEM]) -> bool {
    mem[0] == CANARY && mem[1] == CANARY && mem[2] == CANARY && mem[3] == CANARY
        && mem[LEFT + CAP] == CANARY && mem[LEFT + CAP + 1] == CANARY && mem[LEFT + CAP + 2] == CANARY && mem[LEFT + CAP + 3] == CANARY
}

fn fresh_mem() -> [u8; MEM] {
    let mut mem = [0u8; MEM];
    mem[0] = CANARY;
    mem[1] = CANARY;
    mem[2] = CANARY;
    mem[3] = CANARY;
    mem[LEFT + CAP] = CANARY;
    mem[LEFT + CAP + 1] = CANARY;
    mem[LEFT + CAP + 2] = CANARY;
    mem[LEFT + CAP + 3] = CANARY;
    mem
}

/// split (buffered) writers: header half of OFF bytes, data half of CAP-OFF bytes. One `write`, one
/// `write_vectored` on the data half, one `write` on the header half, then commit.
pub fn split_buffered<const OFF: usize>() {
    dev_reset();
    let mut mem = fresh_mem();
    let base = mem.as_ptr() as usize + LEFT;
    let d: [u8; 9] = kani::any();
    let e: [u8; 4] = kani::any();
    let hdr: [u8; 5] = kani::any();
    let (n1, a, b, m): (usize, usize, usize, usize) = (kani::any(), kani::any(), kani::any(), kani::any());
    kani::assume(n1 <= 9 && a <= 4 && b <= 4 && m <= 5);
    let (hl, dl);
    {
        let region: &mut [u8] = unsafe { std::slice::from_raw_parts_mut(mem.as_mut_ptr().add(LEFT), CAP) };
        let mut w1 = FuseDevWriter::<()>::new(dev_fd(), region).unwrap();
        assert!(w1.available_bytes() == CAP && w1.bytes_written() == 0, "[C04] fresh writer: whole buffer available");
        let mut w2 = w1.split_at(OFF).unwrap();
        assert!(w1.available_bytes() == OFF && w2.available_bytes() == CAP - OFF, "[C04] split halves add up to the buffer size");
        assert!(w1.bytes_written() == 0 && w2.bytes_written() == 0, "[C04] split of an empty writer: nothing written in either half");
        assert!(w2.buf.as_ptr() as usize == base + OFF && w1.buf.as_ptr() as usize == base, "[C04] second half starts exactly at the split offset");

        // --- write on the data half
        let r = w2.write(&d[..n1]);
        let mut len2 = 0;
        if n1 <= CAP - OFF {
            assert!(matches!(r, Ok(x) if x == n1), "[C04] a write that fits is accepted whole");
            len2 = n1;
        } else {
            assert!(r.is_err(), "[C04] a write exceeding the remaining space fails");
        }
        assert!(w2.bytes_written() == len2 && w2.available_bytes() == CAP - OFF - len2, "[C04] written + available equals the capacity of this writer (failure writes nothing)");
        std::mem::forget(r);

        // --- vectored write on the data half
        let iov = [IoSlice::new(&d[..a]), IoSlice::new(&e[..b])];
        let r = w2.write_vectored(&iov);
        let before = len2;
        if a + b <= CAP - OFF - len2 {
            assert!(matches!(r, Ok(x) if x == a + b), "[C04] a vectored write that fits is accepted whole");
            len2 += a + b;
        } else {
            assert!(r.is_err(), "[C04] a vectored write whose total exceeds the remaining space fails");
        }
        assert!(w2.bytes_written() == len2 && w2.available_bytes() == CAP - OFF - len2, "[C04] a failed vectored write writes nothing; counters add up");
        std::mem::forget(r);

        // --- header half
        let r = w1.write(&hdr[..m]);
        let mut len1 = 0;
        if m <= OFF {
            assert!(matches!(r, Ok(x) if x == m), "[C04] header write that fits is accepted");
            len1 = m;
        } else {
            assert!(r.is_err(), "[C04] header write beyond the split offset fails");
        }
        assert!(w1.bytes_written() == len1 && w1.available_bytes() == OFF - len1, "[C04] header half counters add up");
        std::mem::forget(r);
        assert!(unsafe { DEV_CALLS } == 0, "[C04] buffered writers emit nothing before commit");

        // --- content of the borrowed buffer = what was written, in order, at the right place
        let p: usize = kani::any();
        kani::assume(p < CAP);
        let got = unsafe { *((base + p) as *const u8) };
        if p < len1 {
            assert!(got == hdr[p], "[C04] header bytes land at the start of the buffer in order");
        } else if p >= OFF && p < OFF + len2 {
            let q = p - OFF;
            let want = if q < before { d[q] } else if q < before + a { d[q - before] } else { e[q - before - a] };
            assert!(got == want, "[C04] data bytes land after the split offset: the concatenation written, nothing skipped or repeated");
        } else {
            assert!(got == 0, "[C04] bytes not written stay untouched");
        }

        // --- commit: ONE device call carrying header ‖ data
        let other = Writer::FuseDev(w2);
        let r = w1.commit(Some(&other));
        dev_sync();
        let total = len1 + len2;
        assert!(matches!(r, Ok(x) if x == total), "[C04] commit reports header + data bytes");
        unsafe {
            assert!(DEV_CALLS == if total == 0 { 0 } else { 1 }, "[C01] a reply is delivered by exactly one write call (none when empty)");
            assert!(DEV_LEN == total, "[C04] the device receives exactly the bytes written");
            if total > 0 {
                assert!(DEV_FD == FD_USED, "[C04] written to the session's descriptor");
                let i: usize = kani::any();
                kani::assume(i < total);
                let want = if i < len1 { hdr[i] } else {
                    let q = i - len1;
                    if q < before { d[q] } else if q < before + a { d[q - before] } else { e[q - before - a] }
                };
                assert!(DEV[i] == want, "[C04] device bytes = header bytes followed by data bytes, in order");
            }
        }
        std::mem::forget(r);
        hl = len1;
        dl = len2;
        std::mem::forget(other);
        std::mem::forget(w1);
    }
    assert!(canaries_ok(&mem), "[C04] nothing outside the supplied buffer is touched");
    kani::cover!(OFF == 0 || OFF == CAP || (hl > 0 && dl > 0), "header and data committed together");
    kani::cover!(OFF == 0 || n1 > CAP - OFF, "data write refused for lack of space");
    kani::cover!(OFF == CAP || (a > 0 && b > 0 && dl >= a + b), "two-slice vectored write accepted");
    kani::cover!(OFF == CAP || (a > 0 && b > 0 && a + b > CAP - OFF - (if n1 <= CAP - OFF { n1 } else { 0 }) && a <= CAP - OFF - (if n1 <= CAP - OFF { n1 } else { 0 })),
        "vectored write refused although its first slice would fit");
}
fh!(c04_fdw_split4, 14, split_buffered::<4>());
fh!(c04_fdw_split0, 14, split_buffered::<0>());
fh!(c04_fdw_split12, 14, split_buffered::<12>());

/// sharp, cheap instances of the vectored-write rule on the 8-byte data half (lengths concrete,
/// bytes symbolic): the TOTAL decides; a refused vectored write leaves nothing behind even when a
/// prefix of its slices would fit.
pub fn vectored_total<const A: usize, const B: usize>() {
    dev_reset();
    let mut mem = fresh_mem();
    let d: [u8; 8] = kani::any();
    let e: [u8; 8] = kani::any();
    {
        let region: &mut [u8] = unsafe { std::slice::from_raw_parts_mut(mem.as_mut_ptr().add(LEFT), CAP) };
        let mut w1 = FuseDevWriter::<()>::new(dev_fd(), region).unwrap();
        let mut w2 = w1.split_at(4).unwrap();
        let iov = [IoSlice::new(&d[..A]), IoSlice::new(&e[..B])];
        let r = w2.write_vectored(&iov);
        if A + B <= 8 {
            assert!(matches!(r, Ok(x) if x == A + B) && w2.bytes_written() == A + B, "[C04] a vectored write that fits is accepted whole");
        } else {
            assert!(r.is_err(), "[C04] a vectored write whose total exceeds the remaining space fails");
            assert!(w2.bytes_written() == 0 && w2.available_bytes() == 8, "[C04] a failed vectored write writes nothing; counters add up");
        }
        std::mem::forget(r);
        std::mem::forget(w2);
        std::mem::forget(w1);
    }
    let p: usize = kani::any();
    kani::assume(p < 8);
    let got = mem[LEFT + 4 + p];
    if A + B <= 8 {
        let want = if p < A { d[p] } else if p < A + B { e[p - A] } else { 0 };
        assert!(got == want, "[C04] data bytes land after the split offset: the concatenation written, nothing skipped or repeated");
    } else {
        assert!(got == 0, "[C04] bytes not written stay untouched");
    }
    assert!(canaries_ok(&mem), "[C04] nothing outside the supplied buffer is touched");
    kani::cover!(true, "reached");
}
fh!(c04_fdw_vectored_5_5, 12, vectored_total::<5, 5>());
fh!(c04_fdw_vectored_3_5, 12, vectored_total::<3, 5>());
fh!(c04_fdw_vectored_8_1, 12, vectored_total::<8, 1>());
fh!(c04_fdw_vectored_0_8, 12, vectored_total::<0, 8>());

/// split beyond the capacity is refused and changes nothing; split after a buffered write keeps
/// the written bytes in the right halves
pub fn split_edges() {
    dev_reset();
    let mut mem = fresh_mem();
    let d: [u8; 6] = kani::any();
    {
        let region: &mut [u8] = unsafe { std::slice::from_raw_parts_mut(mem.as_mut_ptr().add(LEFT), CAP) };
        let mut w = FuseDevWriter::<()>::new(dev_fd(), region).unwrap();
        let r = w.split_at(CAP + 1);
        assert!(r.is_err(), "[C04] splitting beyond the capacity fails");
        assert!(w.available_bytes() == CAP && w.bytes_written() == 0 && !w.buffered, "[C04] a failed split changes nothing");
        std::mem::forget(r);
        // nested split: [0,8) | [8,12), then [0,8) -> [0,2) | [2,8)
        let mut tail = w.split_at(8).unwrap();
        let r = w.write(&d[..6]);
        assert!(matches!(r, Ok(6)), "[C04] write into the first half");
        std::mem::forget(r);
        let mut mid = w.split_at(2).unwrap();
        assert!(w.bytes_written() == 2 && w.available_bytes() == 0, "[C04] split after writing: first part keeps the bytes before the offset");
        assert!(mid.bytes_written() == 4 && mid.available_bytes() == 2, "[C04] split after writing: second part keeps the bytes after the offset");
        let r = mid.write(&d[..3]);
        assert!(r.is_err() && mid.bytes_written() == 4, "[C04] write beyond the remaining space of a nested half fails without writing");
        std::mem::forget(r);
        let r = tail.write(&d[..4]);
        assert!(matches!(r, Ok(4)) && tail.available_bytes() == 0, "[C04] tail half filled exactly");
        std::mem::forget(r);
        let r = tail.write(&d[..1]);
        assert!(r.is_err(), "[C04] a full writer refuses further bytes");
        std::mem::forget(r);
        std::mem::forget(tail);
        std::mem::forget(mid);
        std::mem::forget(w);
    }
    let i: usize = kani::any();
    kani::assume(i < 6);
    assert!(mem[LEFT + i] == d[i], "[C04] bytes written before a split stay where they were written");
    assert!(mem[LEFT + 8] == d[0] && mem[LEFT + 11] == d[3], "[C04] tail bytes at offset 8..12");
    assert!(canaries_ok(&mem), "[C04] nothing outside the supplied buffer is touched");
    kani::cover!(true, "reached");
}
fh!(c04_fdw_split_edges, 14, split_edges());

/// unbuffered writer: each write goes to the device in one call; oversize writes never reach it
pub fn unbuffered(vectored: bool) {
    dev_reset();
    let mut mem = fresh_mem();
    let d: [u8; 8] = kani::any();
    let e: [u8; 6] = kani::any();
    let (a, b): (usize, usize) = (kani::any(), kani::any());
    kani::assume(a <= 8 && b <= 6);
    let refuse: bool = kani::any();
    let accept: usize = kani::any();
    unsafe {
        DEV_REFUSE = refuse;
        DEV_ACCEPT = accept;
    }
    {
        let region: &mut [u8] = unsafe { std::slice::from_raw_parts_mut(mem.as_mut_ptr().add(LEFT), CAP) };
        let mut w = FuseDevWriter::<()>::new(dev_fd(), region).unwrap();
        let r0 = w.commit(None);
        assert!(matches!(r0, Ok(0)) && unsafe { DEV_CALLS } == 0, "[C04] commit of an unbuffered writer emits nothing");
        std::mem::forget(r0);
        let total = if vectored { a + b } else { a };
        let r = if vectored {
            let iov = [IoSlice::new(&d[..a]), IoSlice::new(&e[..b])];
            w.write_vectored(&iov)
        } else {
            w.write(&d[..a])
        };
        dev_sync();
        unsafe {
            if total > CAP {
                assert!(r.is_err() && DEV_CALLS == 0, "[C04] an oversize write fails without reaching the device");
                assert!(w.bytes_written() == 0, "[C04] failure accounts nothing");
            } else if refuse {
                assert!(r.is_err() && DEV_CALLS == 1 && w.bytes_written() == 0, "[C04] device refusal is reported, nothing accounted");
            } else {
                let took = if accept < total { accept } else { total };
                assert!(DEV_CALLS == 1, "[C01] an unbuffered write is delivered by exactly one write call");
                assert!(matches!(r, Ok(x) if x == took), "[C04] the write reports what the device took");
                assert!(w.bytes_written() == took && w.available_bytes() == CAP - took, "[C04] written + available equals the buffer size");
                assert!(DEV_LEN == took && DEV_FD == FD_USED, "[C04] device received the accepted bytes");
                if took > 0 {
                    let i: usize = kani::any();
                    kani::assume(i < took);
                    let want = if !vectored || i < a { d[i] } else { e[i - a] };
                    assert!(DEV[i] == want, "[C04] device bytes are the caller's bytes in order");
                }
            }
        }
        std::mem::forget(r);
        std::mem::forget(w);
    }
    let p: usize = kani::any();
    kani::assume(p < MEM);
    assert!(mem[p] == if p < LEFT || p >= LEFT + CAP { CANARY } else { 0 }, "[C04] an unbuffered writer never stores into the borrowed buffer or around it");
    kani::cover!(!refuse && accept >= 14 && a + b == CAP, "exact fit");
    kani::cover!(!refuse && accept < a, "short device write");
}
fh!(c04_fdw_unbuffered_write, 16, unbuffered(false));
fh!(c04_fdw_unbuffered_vectored, 16, unbuffered(true));

// ---------------------------------------------------------------- write_from / write_from_at
/// scripted file: fills `give` bytes (<= offered) with its symbolic data, or fails
pub struct SrcFile {
    pub data: [u8; 8],
    pub give: usize,
    pub fail: bool,
    pub seen_ptr: usize,
    pub seen_len: usize,
    pub seen_off: u64,
    pub calls: u32,
}
impl SrcFile {
    fn fill(&mut self, s: FileVolatileSlice, off: u64) -> io::Result<usize> {
        self.calls += 1;
        self.seen_ptr = s.as_ptr() as usize;
        self.seen_len = s.len();
        self.seen_off = off;
        if self.fail {
            return Err(io::Error::from_raw_os_error(libc::EIO));
        }
        let n = if self.give < s.len() { self.give } else { s.len() };
        let mut i = 0;
        while i < n && i < 8 {
            unsafe { *s.as_ptr().add(i) = self.data[i] };
            i += 1;
        }
        Ok(n)
    }
}
impl FileReadWriteVolatile for SrcFile {
    fn read_volatile(&mut self, slice: FileVolatileSlice) -> io::Result<usize> {
        self.fill(slice, u64::MAX)
    }
    fn write_volatile(&mut self, _slice: FileVolatileSlice) -> io::Result<usize> {
        Ok(0)
    }
    fn read_at_volatile(&mut self, slice: FileVolatileSlice, offset: u64) -> io::Result<usize> {
        self.fill(slice, offset)
    }
    fn write_at_volatile(&mut self, _slice: FileVolatileSlice, _offset: u64) -> io::Result<usize> {
        Ok(0)
    }
}

pub fn write_from(at: bool, buffered: bool) {
    dev_reset();
    let mut mem = fresh_mem();
    let base = mem.as_ptr() as usize + LEFT;
    let mut src = SrcFile { data: kani::any(), give: kani::any(), fail: kani::any(), seen_ptr: 0, seen_len: 0, seen_off: 0, calls: 0 };
    let count: usize = kani::any();
    let off: u64 = kani::any();
    let pre: [u8; 3] = kani::any();
    kani::assume(src.give <= 8);
    {
        let region: &mut [u8] = unsafe { std::slice::from_raw_parts_mut(mem.as_mut_ptr().add(LEFT), CAP) };
        let mut w0 = FuseDevWriter::<()>::new(dev_fd(), region).unwrap();
        // buffered: data half [4,12) already holding 3 bytes; unbuffered: the fresh writer
        let mut w = if buffered {
            let mut w2 = w0.split_at(4).unwrap();
            let r = w2.write(&pre);
            std::mem::forget(r);
            w2
        } else {
            FuseDevWriter::<()>::new(dev_fd(), unsafe { std::slice::from_raw_parts_mut(mem.as_mut_ptr().add(LEFT), CAP) }).unwrap()
        };
        let start = if buffered { 4 + 3 } else { 0 };
        let avail = if buffered { 8 - 3 } else { CAP };
        let had = if buffered { 3 } else { 0 };
        let r = if at { w.write_from_at(&mut src, count, off) } else { w.write_from(&mut src, count) };
        dev_sync();
        if count > avail {
            assert!(r.is_err() && src.calls == 0, "[C04] a file transfer exceeding the remaining space fails before touching the file");
            assert!(w.bytes_written() == had, "[C04] failure accounts nothing");
        } else {
            // the non-positional default `read_vectored_volatile` skips empty buffers: count == 0 reads nothing
            assert!(src.calls == if count == 0 && !at { 0 } else { 1 }, "[C04] one file read per transfer");
            assert!(src.calls == 0 || (src.seen_len == count && src.seen_ptr == base + start), "[C04] the file is offered exactly `count` bytes right after the bytes already written");
            assert!(!at || src.seen_off == off, "[C04] file offset forwarded");
            if src.fail && src.calls > 0 {
                assert!(r.is_err() && w.bytes_written() == had, "[C04] a failed file read accounts nothing");
            } else {
                let n = if src.give < count { src.give } else { count };
                assert!(w.bytes_written() == had + n && w.available_bytes() == avail - n, "[C04] exactly the bytes the file produced are accounted");
                if buffered {
                    assert!(matches!(r, Ok(x) if x == n) && unsafe { DEV_CALLS } == 0, "[C04] buffered transfer reports the bytes read and emits nothing");
                } else {
                    unsafe {
                        assert!(DEV_CALLS == 1 && DEV_LEN == n, "[C04] unbuffered transfer emits the bytes read in one call");
                        if n > 0 {
                            let i: usize = kani::any();
                            kani::assume(i < n);
                            assert!(DEV[i] == src.data[i], "[C04] device bytes are the file's bytes in order");
                        }
                    }
                    assert!(matches!(r, Ok(x) if x == n), "[C04] transfer reports what the device took");
                }
            }
        }
        std::mem::forget(r);
        std::mem::forget(w);
        std::mem::forget(w0);
    }
    assert!(canaries_ok(&mem), "[C04] nothing outside the supplied buffer is touched");
    if buffered {
        assert!(mem[LEFT + 4] == pre[0] && mem[LEFT + 5] == pre[1] && mem[LEFT + 6] == pre[2], "[C04] earlier bytes are not overwritten by a file transfer");
        assert!(mem[LEFT] == 0 && mem[LEFT + 3] == 0, "[C04] the header half is not touched by the data half");
    }
    kani::cover!(!src.fail && count <= 5 && src.give < count, "short file read");
    kani::cover!(!src.fail && count > 0 && src.give >= count && count <= 5, "full file read");
}
fh!(c04_fdw_write_from_buffered, 12, write_from(false, true));
fh!(c04_fdw_write_from_at_buffered, 12, write_from(true, true));
fh!(c04_fdw_write_from_unbuffered, 12, write_from(false, false));
fh!(c04_fdw_write_from_at_unbuffered, 12, write_from(true, false));

/// write_all_from: loops until `count` bytes are transferred; a file that stops early is an error.
/// The chunk size the file produces is concrete per instance (0 / 3 / 8): each loop iteration
/// carries io::Error drop glue, and a symbolic chunk size ran out of memory at 16 GB.
pub fn write_all_from_h<const GIVE: usize>() {
    dev_reset();
    let mut mem = fresh_mem();
    let mut src = SrcFile { data: kani::any(), give: GIVE, fail: false, seen_ptr: 0, seen_len: 0, seen_off: 0, calls: 0 };
    let count: usize = kani::any();
    kani::assume(count <= 9);
    {
        let region: &mut [u8] = unsafe { std::slice::from_raw_parts_mut(mem.as_mut_ptr().add(LEFT), CAP) };
        let mut w0 = FuseDevWriter::<()>::new(dev_fd(), region).unwrap();
        let mut w = w0.split_at(4).unwrap();
        let r = w.write_all_from(&mut src, count);
        if count > 8 {
            assert!(r.is_err() && src.calls == 0 && w.bytes_written() == 0, "[C04] an oversize write_all_from fails before touching the file");
        } else if count == 0 {
            assert!(r.is_ok() && src.calls == 0, "[C04] empty transfer");
        } else if GIVE == 0 {
            assert!(r.is_err(), "[C04] a file that produces nothing fails the whole-buffer transfer");
        } else {
            assert!(r.is_ok() && w.bytes_written() == count, "[C04] write_all_from transfers exactly `count` bytes");
        }
        assert!(w.bytes_written() + w.available_bytes() == 8, "[C04] counters add up");
        std::mem::forget(r);
        std::mem::forget(w);
        std::mem::forget(w0);
    }
    assert!(canaries_ok(&mem), "[C04] nothing outside the supplied buffer is touched");
    kani::cover!(count == 8, "whole data half filled");
}
fh!(c04_fdw_write_all_from_g3, 6, write_all_from_h::<3>());
fh!(c04_fdw_write_all_from_g0, 6, write_all_from_h::<0>());
fh!(c04_fdw_write_all_from_g8, 6, write_all_from_h::<8>());
