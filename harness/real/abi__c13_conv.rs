// C13: conversions between host stat data and wire attributes preserve every field the wire
// format can carry, in both directions.  Fully symbolic inputs.
#![allow(unused_imports, clippy::all)]
use super::*;

fn any_stat() -> stat64 {
    let mut st: stat64 = unsafe { core::mem::zeroed() };
    st.st_dev = kani::any();
    st.st_ino = kani::any();
    st.st_nlink = kani::any();
    st.st_mode = kani::any();
    st.st_uid = kani::any();
    st.st_gid = kani::any();
    st.st_rdev = kani::any();
    st.st_size = kani::any();
    st.st_blksize = kani::any();
    st.st_blocks = kani::any();
    st.st_atime = kani::any();
    st.st_atime_nsec = kani::any();
    st.st_mtime = kani::any();
    st.st_mtime_nsec = kani::any();
    st.st_ctime = kani::any();
    st.st_ctime_nsec = kani::any();
    st
}

#[kani::proof]
fn c13_stat_to_attr() {
    let st = any_stat();
    let flags: u32 = kani::any();
    let a = Attr::with_flags(st, flags);
    assert!(a.ino == st.st_ino, "[C13] attr.ino carries st_ino");
    assert!(a.size == st.st_size as u64, "[C13] attr.size carries st_size");
    assert!(a.blocks == st.st_blocks as u64, "[C13] attr.blocks carries st_blocks");
    assert!(a.atime == st.st_atime as u64, "[C13] attr.atime");
    assert!(a.mtime == st.st_mtime as u64, "[C13] attr.mtime");
    assert!(a.ctime == st.st_ctime as u64, "[C13] attr.ctime");
    assert!(a.atimensec == st.st_atime_nsec as u32, "[C13] attr.atimensec");
    assert!(a.mtimensec == st.st_mtime_nsec as u32, "[C13] attr.mtimensec");
    assert!(a.ctimensec == st.st_ctime_nsec as u32, "[C13] attr.ctimensec");
    assert!(a.mode == st.st_mode, "[C13] attr.mode");
    assert!(a.nlink == st.st_nlink as u32, "[C13] attr.nlink");
    assert!(a.uid == st.st_uid, "[C13] attr.uid");
    assert!(a.gid == st.st_gid, "[C13] attr.gid");
    assert!(a.rdev == st.st_rdev as u32, "[C13] attr.rdev");
    assert!(a.blksize == st.st_blksize as u32, "[C13] attr.blksize");
    assert!(a.flags == flags, "[C13] attr.flags");
    let b: Attr = st.into();
    assert!(b.flags == 0 && b.ino == st.st_ino && b.mode == st.st_mode, "[C13] From<stat64> is with_flags(.., 0)");
    kani::cover!(a.flags != 0 && a.ino != 0, "non-trivial attr");
}

#[kani::proof]
fn c13_attr_to_stat_roundtrip() {
    let a = Attr {
        ino: kani::any(), size: kani::any(), blocks: kani::any(), atime: kani::any(),
        mtime: kani::any(), ctime: kani::any(), atimensec: kani::any(), mtimensec: kani::any(),
        ctimensec: kani::any(), mode: kani::any(), nlink: kani::any(), uid: kani::any(),
        gid: kani::any(), rdev: kani::any(), blksize: kani::any(), flags: kani::any(),
    };
    let st: stat64 = a.into();
    assert!(st.st_ino == a.ino && st.st_size as u64 == a.size && st.st_blocks as u64 == a.blocks, "[C13] attr->stat ino/size/blocks");
    assert!(st.st_atime as u64 == a.atime && st.st_mtime as u64 == a.mtime && st.st_ctime as u64 == a.ctime, "[C13] attr->stat times");
    assert!(st.st_atime_nsec as u32 == a.atimensec && st.st_mtime_nsec as u32 == a.mtimensec && st.st_ctime_nsec as u32 == a.ctimensec, "[C13] attr->stat nsecs");
    assert!(st.st_mode == a.mode && st.st_nlink as u32 == a.nlink && st.st_uid == a.uid && st.st_gid == a.gid, "[C13] attr->stat mode/nlink/ids");
    assert!(st.st_rdev as u32 == a.rdev && st.st_blksize as u32 == a.blksize, "[C13] attr->stat rdev/blksize");
    // there and back: every wire field survives
    let b = Attr::with_flags(st, a.flags);
    assert!(b.ino == a.ino && b.size == a.size && b.blocks == a.blocks && b.atime == a.atime
        && b.mtime == a.mtime && b.ctime == a.ctime && b.atimensec == a.atimensec
        && b.mtimensec == a.mtimensec && b.ctimensec == a.ctimensec && b.mode == a.mode
        && b.nlink == a.nlink && b.uid == a.uid && b.gid == a.gid && b.rdev == a.rdev
        && b.blksize == a.blksize && b.flags == a.flags, "[C13] wire attr -> stat64 -> wire attr is the identity");
    kani::cover!(a.ino != 0, "non-trivial");
}

#[kani::proof]
fn c13_setattr_in_to_stat() {
    let s = SetattrIn {
        valid: kani::any(), padding: kani::any(), fh: kani::any(), size: kani::any(),
        lock_owner: kani::any(), atime: kani::any(), mtime: kani::any(), ctime: kani::any(),
        atimensec: kani::any(), mtimensec: kani::any(), ctimensec: kani::any(), mode: kani::any(),
        unused4: kani::any(), uid: kani::any(), gid: kani::any(), unused5: kani::any(),
    };
    let st: stat64 = s.into();
    assert!(st.st_mode == s.mode, "[C13] setattr mode");
    assert!(st.st_uid == s.uid && st.st_gid == s.gid, "[C13] setattr owner ids");
    assert!(st.st_size as u64 == s.size, "[C13] setattr size");
    assert!(st.st_atime as u64 == s.atime && st.st_mtime as u64 == s.mtime && st.st_ctime as u64 == s.ctime, "[C13] setattr times");
    assert!(st.st_atime_nsec as u32 == s.atimensec && st.st_mtime_nsec as u32 == s.mtimensec && st.st_ctime_nsec as u32 == s.ctimensec, "[C13] setattr nsecs");
    kani::cover!(s.mode != 0, "non-trivial");
}

#[kani::proof]
fn c13_statvfs_to_kstatfs() {
    let mut st: statvfs64 = unsafe { core::mem::zeroed() };
    st.f_blocks = kani::any();
    st.f_bfree = kani::any();
    st.f_bavail = kani::any();
    st.f_files = kani::any();
    st.f_ffree = kani::any();
    st.f_bsize = kani::any();
    st.f_namemax = kani::any();
    st.f_frsize = kani::any();
    let k = Kstatfs::from(st);
    assert!(k.blocks == st.f_blocks && k.bfree == st.f_bfree && k.bavail == st.f_bavail, "[C13] statfs block counts");
    assert!(k.files == st.f_files && k.ffree == st.f_ffree, "[C13] statfs file counts");
    assert!(k.bsize == st.f_bsize as u32 && k.namelen == st.f_namemax as u32 && k.frsize == st.f_frsize as u32, "[C13] statfs sizes");
    kani::cover!(k.blocks != 0, "non-trivial");
}

#[kani::proof]
fn c13_filelock_both_ways() {
    let w = FileLock { start: kani::any(), end: kani::any(), type_: kani::any(), pid: kani::any() };
    let f: crate::api::filesystem::FileLock = w.into();
    assert!(f.start == w.start && f.end == w.end && f.lock_type == w.type_ && f.pid == w.pid, "[C13] wire lock -> api lock");
    let b: FileLock = f.into();
    assert!(b.start == w.start && b.end == w.end && b.type_ == w.type_ && b.pid == w.pid, "[C13] api lock -> wire lock");
    kani::cover!(w.pid != 0, "non-trivial");
}
