// VFS harnesses (C07 routing, C14 id mapping, C12 option algebra, C06 name rejection) on a
// directly constructed `Vfs` (struct literal: no mount history, no path walking), with scripted
// recording backends behind the real `Box<dyn BackendFileSystem>` dispatch.
#![allow(unused_imports, static_mut_refs, dead_code, clippy::all)]
use super::*;
use std::any::Any;
use std::collections::HashMap;
use std::ffi::CStr;
use std::sync::atomic::{AtomicBool, AtomicU8};
use std::sync::{Arc, Mutex};
use std::time::Duration;

use crate::abi::fuse_abi::{stat64, CreateIn, FsOptions, OpenOptions, SetattrValid};
use crate::api::filesystem::{Context, DirEntry, Entry, FileSystem};

pub fn noop() {}
pub fn empty_string(_: std::fmt::Arguments<'_>) -> String {
    String::new()
}
/// std::hash::RandomState::new reads per-thread random keys (getrandom FFI + TLS); fixed keys
/// keep HashMap behaviour deterministic (hash KEYS stay concrete in every harness).
pub fn fixed_random_state() -> std::hash::RandomState {
    unsafe { std::mem::transmute::<(u64, u64), std::hash::RandomState>((0x0123_4567_89ab_cdef, 0x0fed_cba9_8765_4321)) }
}

/// what a backend saw
pub struct BLog {
    pub calls: u32,
    pub who: u8,
    pub method: u32,
    pub ino: u64,
    pub ino2: u64,
    pub uid: u32,
    pub gid: u32,
    pub st_uid: u32,
    pub st_gid: u32,
    pub inits: u32,
    pub init_opts: u64,
}
pub static mut BLOG: BLog = BLog { calls: 0, who: 0, method: 0, ino: 0, ino2: 0, uid: 0, gid: 0, st_uid: 0, st_gid: 0, inits: 0, init_opts: 0 };
/// what a backend answers
pub static mut B_ENTRY: Option<Entry> = None;
pub static mut B_ERR: i32 = 0;

pub const BM_LOOKUP: u32 = 1;
pub const BM_GETATTR: u32 = 3;
pub const BM_SETATTR: u32 = 4;
pub const BM_MKNOD: u32 = 8;
pub const BM_MKDIR: u32 = 9;
pub const BM_UNLINK: u32 = 10;
pub const BM_RMDIR: u32 = 11;
pub const BM_RENAME: u32 = 12;
pub const BM_LINK: u32 = 13;
pub const BM_OPEN: u32 = 14;
pub const BM_SYMLINK: u32 = 6;
pub const BM_CREATE: u32 = 35;
pub const BM_FORGET: u32 = 2;
pub const BM_READDIRPLUS: u32 = 44;
pub const BM_OTHER: u32 = 99;

pub struct Bk {
    pub id: u8,
}

fn brec(id: u8, m: u32, ctx: &Context, ino: u64) {
    unsafe {
        BLOG.calls += 1;
        BLOG.who = id;
        BLOG.method = m;
        BLOG.ino = ino;
        BLOG.uid = ctx.uid;
        BLOG.gid = ctx.gid;
    }
}
fn bentry() -> io::Result<Entry> {
    unsafe {
        if B_ERR != 0 {
            Err(io::Error::from_raw_os_error(B_ERR))
        } else {
            Ok(B_ENTRY.unwrap())
        }
    }
}

impl FileSystem for Bk {
    type Inode = u64;
    type Handle = u64;

    fn init(&self, capable: FsOptions) -> io::Result<FsOptions> {
        unsafe {
            BLOG.inits += 1;
            BLOG.init_opts = capable.bits();
        }
        Ok(capable)
    }
    fn lookup(&self, ctx: &Context, parent: u64, _name: &CStr) -> io::Result<Entry> {
        brec(self.id, BM_LOOKUP, ctx, parent);
        bentry()
    }
    fn forget(&self, ctx: &Context, inode: u64, _count: u64) {
        brec(self.id, BM_FORGET, ctx, inode);
    }
    fn getattr(&self, ctx: &Context, inode: u64, _h: Option<u64>) -> io::Result<(stat64, Duration)> {
        brec(self.id, BM_GETATTR, ctx, inode);
        bentry().map(|e| (e.attr, e.attr_timeout))
    }
    fn setattr(&self, ctx: &Context, inode: u64, attr: stat64, _h: Option<u64>, _v: SetattrValid) -> io::Result<(stat64, Duration)> {
        brec(self.id, BM_SETATTR, ctx, inode);
        unsafe {
            BLOG.st_uid = attr.st_uid;
            BLOG.st_gid = attr.st_gid;
        }
        bentry().map(|e| (e.attr, e.attr_timeout))
    }
    fn symlink(&self, ctx: &Context, _l: &CStr, parent: u64, _name: &CStr) -> io::Result<Entry> {
        brec(self.id, BM_SYMLINK, ctx, parent);
        bentry()
    }
    fn mknod(&self, ctx: &Context, inode: u64, _name: &CStr, _m: u32, _r: u32, _u: u32) -> io::Result<Entry> {
        brec(self.id, BM_MKNOD, ctx, inode);
        bentry()
    }
    fn mkdir(&self, ctx: &Context, parent: u64, _name: &CStr, _m: u32, _u: u32) -> io::Result<Entry> {
        brec(self.id, BM_MKDIR, ctx, parent);
        bentry()
    }
    fn unlink(&self, ctx: &Context, parent: u64, _name: &CStr) -> io::Result<()> {
        brec(self.id, BM_UNLINK, ctx, parent);
        Ok(())
    }
    fn rmdir(&self, ctx: &Context, parent: u64, _name: &CStr) -> io::Result<()> {
        brec(self.id, BM_RMDIR, ctx, parent);
        Ok(())
    }
    fn rename(&self, ctx: &Context, olddir: u64, _o: &CStr, newdir: u64, _n: &CStr, _f: u32) -> io::Result<()> {
        brec(self.id, BM_RENAME, ctx, olddir);
        unsafe { BLOG.ino2 = newdir };
        Ok(())
    }
    fn link(&self, ctx: &Context, inode: u64, newparent: u64, _n: &CStr) -> io::Result<Entry> {
        brec(self.id, BM_LINK, ctx, inode);
        unsafe { BLOG.ino2 = newparent };
        bentry()
    }
    fn open(&self, ctx: &Context, inode: u64, _f: u32, _ff: u32) -> io::Result<(Option<u64>, OpenOptions, Option<u32>)> {
        brec(self.id, BM_OPEN, ctx, inode);
        Ok((None, OpenOptions::empty(), None))
    }
    fn create(&self, ctx: &Context, parent: u64, _name: &CStr, _a: CreateIn) -> io::Result<(Entry, Option<u64>, OpenOptions, Option<u32>)> {
        brec(self.id, BM_CREATE, ctx, parent);
        bentry().map(|e| (e, None, OpenOptions::empty(), None))
    }
    fn readdirplus(
        &self,
        ctx: &Context,
        inode: u64,
        _handle: u64,
        _size: u32,
        _offset: u64,
        add_entry: &mut dyn FnMut(DirEntry, Entry) -> io::Result<usize>,
    ) -> io::Result<()> {
        brec(self.id, BM_READDIRPLUS, ctx, inode);
        let e = bentry()?;
        add_entry(DirEntry { ino: e.inode, offset: 1, type_: 0, name: b"x" }, e).map(|_| ())
    }
    fn access(&self, ctx: &Context, inode: u64, _mask: u32) -> io::Result<()> {
        brec(self.id, BM_OTHER, ctx, inode);
        Ok(())
    }
}

/// what a backend answers to BackendFileSystem::mount (root entry, largest inode)
pub static mut B_MOUNT: Option<(Entry, u64)> = None;
pub static mut B_DESTROYED: u32 = 0;

impl BackendFileSystem for Bk {
    fn mount(&self) -> io::Result<(Entry, u64)> {
        unsafe {
            match B_MOUNT {
                Some(m) => Ok(m),
                None => Err(io::Error::from_raw_os_error(libc::ENOSYS)),
            }
        }
    }
    fn as_any(&self) -> &dyn Any {
        self
    }
}

/// PseudoFs::mount (std::path parsing + HashMap of pseudo inodes) is environment for the mount
/// step: it returns the pseudo inode of the mount path. Stub: a fixed pseudo directory inode.
pub const PSEUDO_MNT_INO: u64 = 2;
pub fn stub_pseudo_mount(_fs: &PseudoFs, _path: &str) -> io::Result<u64> {
    Ok(PSEUDO_MNT_INO)
}

pub fn any_stat() -> stat64 {
    let mut st: stat64 = unsafe { std::mem::zeroed() };
    st.st_ino = kani::any();
    st.st_mode = kani::any();
    st.st_uid = kani::any();
    st.st_gid = kani::any();
    st.st_size = kani::any();
    st
}

pub fn any_entry() -> Entry {
    Entry {
        inode: kani::any(),
        generation: kani::any(),
        attr: any_stat(),
        attr_flags: kani::any(),
        attr_timeout: Duration::new(1, 0),
        entry_timeout: Duration::new(1, 0),
    }
}

pub const IDX_A: u8 = 1;
pub const IDX_B: u8 = 7;
pub const IDX_VACANT: u8 = 3;
/// length of the superblock / mapping tables in the harness Vfs (crate: MAX_VFS_INDEX = 256)
pub const TABLE: usize = 8;

/// A client inode number with a CONCRETE mount index byte and 56 symbolic backend bits, built
/// byte-wise so that `fs_idx()`/`is_pseudo_fs()` constant-fold (with `(idx << 56) | ino` CBMC
/// cannot exclude the pseudo-fs branch and explores a HashMap lookup with a symbolic key).
/// Returns (inode, backend bits).
pub fn any_inode_at(idx: u8) -> (VfsInode, u64) {
    let b: [u8; 7] = kani::any();
    let raw = u64::from_le_bytes([b[0], b[1], b[2], b[3], b[4], b[5], b[6], idx]);
    let low = u64::from_le_bytes([b[0], b[1], b[2], b[3], b[4], b[5], b[6], 0]);
    (VfsInode::from(raw), low)
}

/// a mount index chosen by BRANCHING (each path sees a concrete index: a symbolic index into the
/// table of Arc<Box<dyn ..>> does not finish): mounted A, mounted B, a vacant slot
pub fn pick_index() -> u8 {
    if kani::any() {
        IDX_A
    } else if kani::any() {
        IDX_B
    } else {
        IDX_VACANT
    }
}

pub struct VfsCfg {
    pub global: Option<(u32, u32, u32)>,
    pub map_a: Option<(u32, u32, u32)>,
    pub map_b: Option<(u32, u32, u32)>,
    pub root_mount: bool,
    pub opts: VfsOptions,
    pub with_pseudo: bool,
}

/// A Vfs with backend A at index 1 and backend B at index 7 (every other slot vacant), the real
/// 256-entry tables, and optionally a mount of A on the VFS root.
pub fn mk_vfs(cfg: VfsCfg) -> Vfs {
    // TABLE-entry tables (the crate uses 256; harnesses only use indices < TABLE, for which
    // indexing behaves identically) built without loops; the Vfs is mem::forget-ed by callers
    const NONE_FS: Option<Arc<BackFileSystem>> = None;
    let mut sb_arr: [Option<Arc<BackFileSystem>>; TABLE] = [NONE_FS; TABLE];
    sb_arr[IDX_A as usize] = Some(Arc::new(Box::new(Bk { id: IDX_A })));
    sb_arr[IDX_B as usize] = Some(Arc::new(Box::new(Bk { id: IDX_B })));
    let sb: Vec<Option<Arc<BackFileSystem>>> = Vec::from(Box::new(sb_arr) as Box<[_]>);
    let mut map_arr: [Option<(u32, u32, u32)>; TABLE] = [None; TABLE];
    map_arr[IDX_A as usize] = cfg.map_a;
    map_arr[IDX_B as usize] = cfg.map_b;
    let maps: Vec<Option<(u32, u32, u32)>> = Vec::from(Box::new(map_arr) as Box<[_]>);
    let mut mp: HashMap<u64, Arc<MountPointData>> = HashMap::new();
    if cfg.root_mount {
        mp.insert(
            ROOT_ID,
            Arc::new(MountPointData { fs_idx: IDX_A, ino: 1, root_entry: Entry::default(), _path: String::new() }),
        );
    }
    Vfs {
        next_super: AtomicU8::new(VFS_PSEUDO_FS_IDX + 1),
        root: crate::api::pseudo_fs::verif_mk::mk_pseudo_empty(),
        mountpoints: ArcSwap::new(Arc::new(mp)),
        superblocks: ArcSwap::new(Arc::new(sb)),
        mount_id_mappings: ArcSwap::new(Arc::new(maps)),
        opts: ArcSwap::new(Arc::new(cfg.opts)),
        initialized: AtomicBool::new(false),
        lock: Mutex::new(()),
        remove_pseudo_root: false,
        id_mapping: cfg.global,
    }
}

pub fn any_mapping() -> Option<(u32, u32, u32)> {
    if kani::any() {
        let m: (u32, u32, u32) = (kani::any(), kani::any(), kani::any());
        // a mapping is a pair of ranges inside the 32-bit id space (stated precondition)
        kani::assume(m.2 > 0);
        kani::assume((m.0 as u64) + (m.2 as u64) <= 1u64 << 32);
        kani::assume((m.1 as u64) + (m.2 as u64) <= 1u64 << 32);
        Some(m)
    } else {
        None
    }
}

/// reference semantics of the mapping (independent of remap_id)
pub fn spec_remap(v: u32, from: u32, to: u32, range: u32) -> u32 {
    let (v6, f6, t6, r6) = (v as u64, from as u64, to as u64, range as u64);
    if v6 >= f6 && v6 < f6 + r6 {
        (t6 + (v6 - f6)) as u32
    } else {
        v
    }
}

pub fn reset_blog() {
    unsafe {
        BLOG.calls = 0;
        BLOG.who = 0;
        BLOG.method = 0;
        BLOG.inits = 0;
    }
}

macro_rules! vh {
    ($name:ident, $unwind:expr, $body:expr) => {
        #[kani::proof]
        #[kani::unwind($unwind)]
        #[kani::stub(std::rt::thread_cleanup, noop)]
        #[kani::stub(std::fmt::format, empty_string)]
        #[kani::stub(std::hash::RandomState::new, fixed_random_state)]
        pub fn $name() {
            $body
        }
    };
}

// ============================================================================ C14 pure kernel
#[kani::proof]
pub fn c14_remap_id_all() {
    let (v, from, to, range): (u32, u32, u32, u32) = (kani::any(), kani::any(), kani::any(), kani::any());
    kani::assume((from as u64) + (range as u64) <= 1u64 << 32);
    kani::assume((to as u64) + (range as u64) <= 1u64 << 32);
    let r = remap_id(v, from, to, range);
    assert!(r == spec_remap(v, from, to, range), "[C14] remap_id: inside the source range -> to + (v - from), outside -> unchanged");
    let inside = (v as u64) >= from as u64 && (v as u64) < from as u64 + range as u64;
    if inside {
        assert!(remap_id(r, to, from, range) == v, "[C14] translation there and back is the identity on the range");
    } else {
        assert!(r == v, "[C14] ids outside the mapped range pass unchanged");
    }
    kani::cover!(inside && range > 1, "inside");
    kani::cover!(!inside && range > 0, "outside");
    kani::cover!(v == from.wrapping_add(range).wrapping_sub(1) && range > 0, "upper edge");
}

// ============================================================================ C07 pure kernels
#[kani::proof]
pub fn c07_inode_pack() {
    let idx: u8 = kani::any();
    let ino: u64 = kani::any();
    kani::assume(ino <= VFS_MAX_INO);
    let v = VfsInode::new(idx, ino);
    assert!(v.fs_idx() == idx && v.ino() == ino, "[C07] (mount index, backend inode) round-trips through the client-visible inode number");
    assert!(v.is_pseudo_fs() == (idx == 0), "[C07] index 0 is the pseudo filesystem");
    let raw: u64 = v.into();
    let w = VfsInode::from(raw);
    assert!(w.fs_idx() == idx && w.ino() == ino, "[C07] From<u64>/Into<u64> preserve the pair");
    kani::cover!(idx == 255 && ino == VFS_MAX_INO, "extremes");
}

vh!(c07_convert_inode, 8, {
    let vfs = mk_vfs(VfsCfg { global: None, map_a: None, map_b: None, root_mount: false, opts: VfsOptions::default(), with_pseudo: false });
    let idx: u8 = kani::any();
    let ino: u64 = kani::any();
    let r = vfs.convert_inode(idx, ino);
    if ino == 0 {
        assert!(matches!(r, Ok(0)), "[C07] a negative entry (inode 0) stays 0");
    } else if ino > VFS_MAX_INO {
        assert!(r.is_err(), "[C07] a backend inode that does not fit 56 bits is refused");
    } else {
        let x = r.unwrap();
        let v = VfsInode::from(x);
        assert!(v.fs_idx() == idx && v.ino() == ino, "[C07] client inode identifies exactly (mount index, backend inode)");
        assert!(idx == 0 || !v.is_pseudo_fs(), "[C07] a backend inode never aliases a pseudo inode");
    }
    kani::cover!(ino > VFS_MAX_INO, "too large");
    kani::cover!(ino != 0 && ino <= VFS_MAX_INO && idx > 0, "regular");
    std::mem::forget(vfs);
});

// ============================================================================ C07 routing
fn plain_cfg() -> VfsCfg {
    VfsCfg { global: None, map_a: None, map_b: None, root_mount: false, opts: VfsOptions::default(), with_pseudo: false }
}

fn name_x() -> &'static CStr {
    CStr::from_bytes_with_nul(b"x\0").unwrap()
}

/// get_real_rootfs: an inode is routed to the backend mounted at its index, with the backend's
/// own inode number; a vacant index fails without touching any backend.
/// `via_setattr`: symbolic backend inode bits through SETATTR (whose pseudo-fs branch is the
/// trait default); otherwise GETATTR with a fixed backend inode (with symbolic bits CBMC cannot
/// exclude the pseudo-fs branch of getattr/lookup/readdirplus, whose HashMap lookup with a
/// symbolic key does not finish).
pub fn c07_route_getattr_at(idx: u8, via_setattr: bool) {
    c07_route_getattr_cfg(idx, via_setattr, false)
}
/// `root_mount`: backend A is additionally mounted on the VFS root; this must not change the routing
/// of any inode number carrying a mount index (only the pseudo-fs root itself is redirected).
pub fn c07_route_getattr_cfg(idx: u8, via_setattr: bool, root_mount: bool) {
    let mut cfg = plain_cfg();
    cfg.root_mount = root_mount;
    let vfs = mk_vfs(cfg);
    let (node, ino) = if via_setattr { any_inode_at(idx) } else { (VfsInode::new(idx, 5), 5) };
    let e = any_entry();
    unsafe {
        B_ENTRY = Some(e);
        B_ERR = 0;
    }
    reset_blog();
    let ctx = Context { uid: kani::any(), gid: kani::any(), pid: kani::any() };
    let r = if via_setattr {
        vfs.setattr(&ctx, node, any_stat(), None, SetattrValid::MODE)
    } else {
        vfs.getattr(&ctx, node, None)
    };
    unsafe {
        if idx == IDX_A || idx == IDX_B {
            assert!(BLOG.calls == 1 && BLOG.who == idx, "[C07] the request is delivered to exactly the backend mounted at the inode's index");
            assert!(BLOG.ino == ino, "[C07] the backend receives its own inode number");
            let (st, _) = r.unwrap();
            assert!(st.st_ino == u64::from(VfsInode::new(idx, ino)), "[C07] the inode number shown to the client identifies (mount, backend inode)");
        } else {
            assert!(BLOG.calls == 0, "[C07] an inode whose mount slot is vacant reaches no backend");
            assert!(r.is_err(), "[C07] an inode whose mount slot is vacant fails");
        }
    }
    kani::cover!(true, "reached");
    std::mem::forget(vfs);
}
vh!(c07_route_setattr_a, 8, c07_route_getattr_at(IDX_A, true));
vh!(c07_route_setattr_b, 8, c07_route_getattr_at(IDX_B, true));
vh!(c07_route_setattr_vacant, 8, c07_route_getattr_at(IDX_VACANT, true));
vh!(c07_rootmnt_route_setattr_b, 8, c07_route_getattr_cfg(IDX_B, true, true));
vh!(c07_rootmnt_route_setattr_vacant, 8, c07_route_getattr_cfg(IDX_VACANT, true, true));
vh!(c07_route_getattr_a, 8, c07_route_getattr_at(IDX_A, false));
vh!(c07_route_getattr_vacant, 8, c07_route_getattr_at(IDX_VACANT, false));

/// lookup through a backend: the returned entry is re-numbered with the parent's mount index and
/// a too-large backend inode is refused.
pub fn c07_route_lookup_at(idx: u8, via_mkdir: bool) {
    let vfs = mk_vfs(plain_cfg());
    let (node, ino) = if via_mkdir { any_inode_at(idx) } else { (VfsInode::new(idx, 5), 5) };
    let e = any_entry();
    unsafe {
        B_ENTRY = Some(e);
        B_ERR = 0;
    }
    reset_blog();
    let ctx = Context { uid: 1, gid: 2, pid: 3 };
    let r = if via_mkdir { vfs.mkdir(&ctx, node, name_x(), 0, 0) } else { vfs.lookup(&ctx, node, name_x()) };
    unsafe {
        assert!(BLOG.calls == 1 && BLOG.who == idx && BLOG.ino == ino, "[C07] lookup is delivered to the owning backend with its own inode");
    }
    if e.inode > VFS_MAX_INO {
        assert!(r.is_err(), "[C07] a backend inode beyond 56 bits is refused");
    } else {
        let out = r.unwrap();
        if e.inode == 0 {
            assert!(out.inode == 0, "[C07] a negative entry stays negative");
        } else {
            let v = VfsInode::from(out.inode);
            assert!(v.fs_idx() == idx && v.ino() == e.inode, "[C07] the entry's inode identifies (mount of the parent, backend inode)");
        }
        assert!(out.attr.st_ino == out.inode, "[C07] lookup and getattr show the same inode number");
    }
    kani::cover!(e.inode > VFS_MAX_INO, "refused");
    kani::cover!(e.inode != 0 && e.inode <= VFS_MAX_INO, "converted");
    std::mem::forget(vfs);
}
vh!(c07_route_mkdir_a, 8, c07_route_lookup_at(IDX_A, true));
vh!(c07_route_mkdir_b, 8, c07_route_lookup_at(IDX_B, true));
vh!(c07_route_lookup_b, 8, c07_route_lookup_at(IDX_B, false));

/// operations spanning two mounts are refused before any backend is touched
pub fn c07_cross_mount_at(a: u8, b: u8, is_link: bool) {
    let vfs = mk_vfs(plain_cfg());
    let (n1, i1) = any_inode_at(a);
    let (n2, i2) = any_inode_at(b);
    unsafe {
        B_ENTRY = Some(Entry::default());
        B_ERR = 0;
    }
    reset_blog();
    let ctx = Context { uid: 1, gid: 2, pid: 3 };
    let err = if is_link {
        vfs.link(&ctx, n1, n2, name_x()).err()
    } else {
        vfs.rename(&ctx, n1, name_x(), n2, name_x(), 0).err()
    };
    unsafe {
        if a != b {
            assert!(BLOG.calls == 0, "[C07] an operation spanning two mounts reaches no backend");
            assert!(matches!(err.map(|e| e.raw_os_error()), Some(Some(libc::EINVAL))), "[C07] an operation spanning two mounts is refused");
        } else {
            assert!(BLOG.calls == 1 && BLOG.who == a && BLOG.ino == i1 && BLOG.ino2 == i2, "[C07] same-mount rename/link is delivered with both backend inodes");
        }
    }
    kani::cover!(true, "reached");
    std::mem::forget(vfs);
}
vh!(c07_cross_rename_ab, 8, c07_cross_mount_at(IDX_A, IDX_B, false));
vh!(c07_cross_link_ba, 8, c07_cross_mount_at(IDX_B, IDX_A, true));
vh!(c07_same_rename_aa, 8, c07_cross_mount_at(IDX_A, IDX_A, false));
vh!(c07_same_link_bb, 8, c07_cross_mount_at(IDX_B, IDX_B, true));

/// a mount on the VFS root: ROOT_ID is routed to the mounted backend's root
vh!(c07_root_mount, 8, {
    let mut cfg = plain_cfg();
    cfg.root_mount = true;
    let vfs = mk_vfs(cfg);
    unsafe {
        B_ENTRY = Some(Entry::default());
        B_ERR = 0;
    }
    reset_blog();
    let ctx = Context { uid: 1, gid: 2, pid: 3 };
    let r = vfs.access(&ctx, VfsInode::new(0, ROOT_ID), 0);
    unsafe {
        assert!(r.is_ok() && BLOG.calls == 1 && BLOG.who == IDX_A && BLOG.ino == 1, "[C07] with a root mount, the VFS root is the mounted backend's root");
    }
    kani::cover!(true, "reached");
    std::mem::forget(vfs);
});

// ============================================================================ C14 paths
/// every entry-returning operation through a backend: the backend sees the caller ids translated
/// external->internal with the mapping of the inode's mount (as Server does via
/// id_remap_with_nodeid) and the client sees owner ids translated back.
pub fn c14_path(op: u8, idx: u8) {
    let cfg = VfsCfg { global: any_mapping(), map_a: any_mapping(), map_b: None, root_mount: false, opts: VfsOptions::default(), with_pseudo: false };
    let (g, ma) = (cfg.global, cfg.map_a);
    let vfs = mk_vfs(cfg);
    let eff = if idx == IDX_A && ma.is_some() { ma } else { g };
    let node = if op == 0 || op == 1 || op == 8 { VfsInode::new(idx, 5) } else { any_inode_at(idx).0 };
    let mut e = any_entry();
    kani::assume(e.inode != 0 && e.inode <= VFS_MAX_INO);
    unsafe {
        B_ENTRY = Some(e);
        B_ERR = 0;
    }
    reset_blog();
    let (uid, gid): (u32, u32) = (kani::any(), kani::any());
    let mut ctx = Context { uid, gid, pid: 3 };
    // what Server::remap_ctx_ids does before dispatch
    vfs.id_remap_with_nodeid(&mut ctx, node).unwrap();
    let (want_uid, want_gid) = match eff {
        Some((i, x, r)) => (spec_remap(uid, x, i, r), spec_remap(gid, x, i, r)),
        None => (uid, gid),
    };
    assert!(ctx.uid == want_uid && ctx.gid == want_gid, "[C14] caller ids are translated external->internal with the mapping of the inode's mount (own mapping, else global)");
    let mut set = any_stat();
    let out: Option<(u32, u32)> = match op {
        0 => vfs.lookup(&ctx, node, name_x()).ok().map(|e| (e.attr.st_uid, e.attr.st_gid)),
        1 => vfs.getattr(&ctx, node, None).ok().map(|(s, _)| (s.st_uid, s.st_gid)),
        // the valid mask is symbolic: owner ids are translated whatever subset of attributes is being set
        2 => vfs.setattr(&ctx, node, set, None, SetattrValid::from_bits_truncate(kani::any())).ok().map(|(s, _)| (s.st_uid, s.st_gid)),
        3 => vfs.mkdir(&ctx, node, name_x(), 0, 0).ok().map(|e| (e.attr.st_uid, e.attr.st_gid)),
        4 => vfs.mknod(&ctx, node, name_x(), 0, 0, 0).ok().map(|e| (e.attr.st_uid, e.attr.st_gid)),
        5 => vfs.symlink(&ctx, name_x(), node, name_x()).ok().map(|e| (e.attr.st_uid, e.attr.st_gid)),
        6 => vfs.link(&ctx, node, node, name_x()).ok().map(|e| (e.attr.st_uid, e.attr.st_gid)),
        7 => vfs.create(&ctx, node, name_x(), CreateIn { flags: 0, mode: 0, umask: 0, fuse_flags: 0 }).ok().map(|(e, _, _, _)| (e.attr.st_uid, e.attr.st_gid)),
        _ => {
            let mut seen: Option<(u32, u32)> = None;
            let r = vfs.readdirplus(&ctx, node, 0, 4096, 0, &mut |_d, en| {
                seen = Some((en.attr.st_uid, en.attr.st_gid));
                Ok(1)
            });
            if r.is_ok() { seen } else { None }
        }
    };
    unsafe {
        assert!(BLOG.calls == 1 && BLOG.who == idx, "[C14] delivered to the owning backend");
        assert!(BLOG.uid == want_uid && BLOG.gid == want_gid, "[C14] the backend sees the translated caller ids");
        if op == 2 {
            let (su, sg) = match eff {
                Some((i, x, r)) => (spec_remap(set.st_uid, x, i, r), spec_remap(set.st_gid, x, i, r)),
                None => (set.st_uid, set.st_gid),
            };
            assert!(BLOG.st_uid == su && BLOG.st_gid == sg, "[C14] owner ids to be set are translated external->internal");
        }
    }
    let (ou, og) = out.unwrap();
    let (wu, wg) = match eff {
        Some((i, x, r)) => (spec_remap(e.attr.st_uid, i, x, r), spec_remap(e.attr.st_gid, i, x, r)),
        None => (e.attr.st_uid, e.attr.st_gid),
    };
    assert!(ou == wu && og == wg, "[C14] the client sees returned owner ids translated internal->external with the mount's mapping");
    kani::cover!(idx != IDX_A || ma.is_some(), "per-mount mapping used");
    kani::cover!(idx != IDX_B || g.is_some(), "global fallback used");
    kani::cover!(eff.is_none(), "no mapping");
    set.st_uid = 0;
    e.inode = 0;
    std::mem::forget(vfs);
}
vh!(c14_path_lookup_a, 8, c14_path(0, IDX_A));
vh!(c14_path_lookup_b, 8, c14_path(0, IDX_B));
vh!(c14_path_getattr_a, 8, c14_path(1, IDX_A));
vh!(c14_path_getattr_b, 8, c14_path(1, IDX_B));
vh!(c14_path_setattr_a, 8, c14_path(2, IDX_A));
vh!(c14_path_setattr_b, 8, c14_path(2, IDX_B));
vh!(c14_path_mkdir_a, 8, c14_path(3, IDX_A));
vh!(c14_path_mkdir_b, 8, c14_path(3, IDX_B));
vh!(c14_path_mknod_a, 8, c14_path(4, IDX_A));
vh!(c14_path_mknod_b, 8, c14_path(4, IDX_B));
vh!(c14_path_symlink_a, 8, c14_path(5, IDX_A));
vh!(c14_path_symlink_b, 8, c14_path(5, IDX_B));
vh!(c14_path_link_a, 8, c14_path(6, IDX_A));
vh!(c14_path_link_b, 8, c14_path(6, IDX_B));
vh!(c14_path_create_a, 8, c14_path(7, IDX_A));
vh!(c14_path_create_b, 8, c14_path(7, IDX_B));
vh!(c14_path_readdirplus_a, 8, c14_path(8, IDX_A));
vh!(c14_path_readdirplus_b, 8, c14_path(8, IDX_B));

/// get_effective_id_mapping for every index: own mapping if given, else global (also index 0)
vh!(c14_effective_mapping, 8, {
    let cfg = VfsCfg { global: any_mapping(), map_a: any_mapping(), map_b: any_mapping(), root_mount: false, opts: VfsOptions::default(), with_pseudo: false };
    let (g, ma, mb) = (cfg.global, cfg.map_a, cfg.map_b);
    let vfs = mk_vfs(cfg);
    let idx: u8 = kani::any();
    kani::assume((idx as usize) < TABLE);
    let got = vfs.get_effective_id_mapping(idx);
    let want = if idx == IDX_A && ma.is_some() { ma } else if idx == IDX_B && mb.is_some() { mb } else { g };
    assert!(got == want, "[C14] each mount uses its own mapping if it was given one and the global mapping otherwise");
    kani::cover!(idx == IDX_B && mb.is_some(), "own");
    kani::cover!(idx == 5 && g.is_some(), "global");
    std::mem::forget(vfs);
});

// ============================================================================ C12 VFS init algebra
vh!(c12_vfs_init, 8, {
    let mut o = VfsOptions::default();
    o.no_open = kani::any();
    o.no_opendir = kani::any();
    o.no_writeback = kani::any();
    o.killpriv_v2 = kani::any();
    o.out_opts = FsOptions::from_bits_truncate(kani::any());
    let want_out = o.out_opts;
    let (no_open, no_opendir, no_wb, kp) = (o.no_open, o.no_opendir, o.no_writeback, o.killpriv_v2);
    let mut cfg = plain_cfg();
    cfg.opts = o;
    let vfs = mk_vfs(cfg);
    let client = FsOptions::from_bits_truncate(kani::any());
    reset_blog();
    let r = vfs.init(client).unwrap();
    let after = vfs.options();
    // expected algebra (the statement of C12)
    let mut exp = want_out;
    if no_open {
        exp.remove(FsOptions::ATOMIC_O_TRUNC);
    } else {
        exp.remove(FsOptions::ZERO_MESSAGE_OPEN);
    }
    if !no_opendir {
        exp.remove(FsOptions::ZERO_MESSAGE_OPENDIR);
    }
    if no_wb {
        exp.remove(FsOptions::WRITEBACK_CACHE);
    }
    if !kp {
        exp.remove(FsOptions::HANDLE_KILLPRIV_V2);
    }
    exp &= client;
    assert!(r == exp && after.out_opts == exp, "[C12] the VFS enables exactly the intersection of what it may offer and what the client offered");
    assert!(client.contains(r), "[C12] nothing the client did not offer is enabled");
    assert!(after.no_open == (no_open && client.contains(FsOptions::ZERO_MESSAGE_OPEN)), "[C12] no-open behaviour only when ZERO_MESSAGE_OPEN was negotiated");
    assert!(after.no_opendir == (no_opendir && client.contains(FsOptions::ZERO_MESSAGE_OPENDIR)), "[C12] no-opendir behaviour only when ZERO_MESSAGE_OPENDIR was negotiated");
    assert!(after.in_opts == client, "[C12] the client's capabilities are recorded");
    unsafe {
        assert!(BLOG.inits == 2 && BLOG.init_opts == exp.bits(), "[C12] every mounted backend is initialised once with the negotiated options");
    }
    assert!(vfs.initialized(), "[C12] initialised");
    // second INIT is refused and changes nothing
    let second = vfs.init(FsOptions::from_bits_truncate(kani::any()));
    assert!(matches!(second.as_ref().map_err(|e| e.raw_os_error()), Err(Some(libc::EINVAL))), "[C12] the VFS refuses a second INIT");
    let again = vfs.options();
    assert!(again.out_opts == exp && again.no_open == after.no_open && again.no_opendir == after.no_opendir && again.in_opts == client, "[C12] a refused second INIT changes nothing");
    unsafe { assert!(BLOG.inits == 2, "[C12] backends are not initialised twice") };
    kani::cover!(after.no_open && !after.no_opendir, "no_open only");
    kani::cover!(!after.no_open && after.no_opendir, "no_opendir only");
    std::mem::forget(second);
    std::mem::forget(vfs);
});

/// after negotiation: OPEN / OPENDIR are answered ENOSYS iff the no-open / no-opendir mode is on
vh!(c12_vfs_open_mode, 8, {
    let mut o = VfsOptions::default();
    o.no_open = kani::any();
    o.no_opendir = kani::any();
    let (no_open, no_opendir) = (o.no_open, o.no_opendir);
    let mut cfg = plain_cfg();
    cfg.opts = o;
    let vfs = mk_vfs(cfg);
    unsafe {
        B_ENTRY = Some(Entry::default());
        B_ERR = 0;
    }
    reset_blog();
    let ctx = Context { uid: 1, gid: 2, pid: 3 };
    let r = vfs.open(&ctx, VfsInode::new(IDX_A, 5), 0, 0);
    assert!(matches!(r.as_ref().map_err(|e| e.raw_os_error()), Err(Some(libc::ENOSYS))) == no_open, "[C12] OPEN is answered ENOSYS exactly in no-open mode");
    unsafe { assert!((BLOG.calls == 0) == no_open, "[C12] in no-open mode OPEN reaches no backend") };
    let r2 = vfs.opendir(&ctx, VfsInode::new(IDX_A, 5), 0);
    assert!(matches!(r2.as_ref().map_err(|e| e.raw_os_error()), Err(Some(libc::ENOSYS))) == no_opendir, "[C12] OPENDIR is answered ENOSYS exactly in no-opendir mode");
    kani::cover!(no_open && !no_opendir, "mixed");
    std::mem::forget(r);
    std::mem::forget(r2);
    std::mem::forget(vfs);
});

// ============================================================================ C06 names at the VFS
/// names of <= 3 bytes (+NUL), symbolic
fn any_name(buf: &mut [u8; 4]) -> &CStr {
    let n: usize = kani::any();
    kani::assume(n <= 3);
    let mut i = 0;
    while i < n {
        let c: u8 = kani::any();
        kani::assume(c != 0);
        buf[i] = c;
        i += 1;
    }
    buf[n] = 0;
    CStr::from_bytes_with_nul(&buf[..=n]).unwrap()
}
fn has_slash(n: &CStr) -> bool {
    let b = n.to_bytes();
    let mut i = 0;
    while i < b.len() {
        if b[i] == b'/' {
            return true;
        }
        i += 1;
    }
    false
}
fn is_dots(n: &CStr) -> bool {
    let b = n.to_bytes();
    (b.len() == 1 && b[0] == b'.') || (b.len() == 2 && b[0] == b'.' && b[1] == b'.')
}

#[kani::proof]
#[kani::unwind(8)]
pub fn c06_name_predicates() {
    let mut buf = [0u8; 4];
    let name = any_name(&mut buf);
    let bad = has_slash(name) || is_dots(name);
    assert!(is_safe_path_component(name) == !bad, "[C06] a safe path component contains no '/' and is neither '.' nor '..'");
    assert!(validate_path_component(name).is_ok() == !bad, "[C06] validate_path_component accepts exactly the safe components");
    assert!(is_dot_or_dotdot(name) == is_dots(name), "[C06] is_dot_or_dotdot recognises exactly '.' and '..'");
    kani::cover!(has_slash(name), "slash");
    kani::cover!(is_dots(name) && name.to_bytes().len() == 2, "dotdot");
    kani::cover!(!bad && name.to_bytes().len() == 3, "ordinary");
}

/// every name-taking mutator of the VFS rejects '.', '..' and names with '/' before any backend is
/// touched; lookup rejects names with '/'.
pub fn c06_vfs_op(op: u8) {
    let vfs = mk_vfs(plain_cfg());
    let mut buf = [0u8; 4];
    let name = any_name(&mut buf);
    let bad = has_slash(name) || is_dots(name);
    unsafe {
        B_ENTRY = Some(Entry::default());
        B_ERR = 0;
    }
    reset_blog();
    let ctx = Context { uid: 1, gid: 2, pid: 3 };
    let node = VfsInode::new(IDX_A, 5);
    let ok_name = name_x();
    let err: Option<i32> = match op {
        0 => vfs.symlink(&ctx, ok_name, node, name).err().and_then(|e| e.raw_os_error()),
        1 => vfs.mknod(&ctx, node, name, 0, 0, 0).err().and_then(|e| e.raw_os_error()),
        2 => vfs.mkdir(&ctx, node, name, 0, 0).err().and_then(|e| e.raw_os_error()),
        3 => vfs.unlink(&ctx, node, name).err().and_then(|e| e.raw_os_error()),
        4 => vfs.rmdir(&ctx, node, name).err().and_then(|e| e.raw_os_error()),
        5 => vfs.rename(&ctx, node, name, node, ok_name, 0).err().and_then(|e| e.raw_os_error()),
        6 => vfs.rename(&ctx, node, ok_name, node, name, 0).err().and_then(|e| e.raw_os_error()),
        7 => vfs.link(&ctx, node, node, name).err().and_then(|e| e.raw_os_error()),
        8 => vfs.create(&ctx, node, name, CreateIn { flags: 0, mode: 0, umask: 0, fuse_flags: 0 }).err().and_then(|e| e.raw_os_error()),
        _ => vfs.lookup(&ctx, node, name).err().and_then(|e| e.raw_os_error()),
    };
    let must_reject = if op == 9 { has_slash(name) } else { bad };
    unsafe {
        if must_reject {
            assert!(BLOG.calls == 0, "[C06] a rejected name never reaches a backend");
            assert!(err == Some(libc::EINVAL), "[C06] '.', '..' and names containing '/' are refused (lookup: names containing '/')");
        } else {
            assert!(BLOG.calls == 1 && err.is_none(), "[C06] an acceptable single-component name is passed on");
        }
    }
    kani::cover!(must_reject, "rejected");
    kani::cover!(!must_reject, "accepted");
    std::mem::forget(vfs);
}
vh!(c06_vfs_symlink, 8, c06_vfs_op(0));
vh!(c06_vfs_mknod, 8, c06_vfs_op(1));
vh!(c06_vfs_mkdir, 8, c06_vfs_op(2));
vh!(c06_vfs_unlink, 8, c06_vfs_op(3));
vh!(c06_vfs_rmdir, 8, c06_vfs_op(4));
vh!(c06_vfs_rename_old, 8, c06_vfs_op(5));
vh!(c06_vfs_rename_new, 8, c06_vfs_op(6));
vh!(c06_vfs_link, 8, c06_vfs_op(7));
vh!(c06_vfs_create, 8, c06_vfs_op(8));
vh!(c06_vfs_lookup, 8, c06_vfs_op(9));

/// A mount on the VFS root and a two-directory operation naming the root: the root resolves to
/// the mounted backend BEFORE the same-mount comparison.  `other`: 0 = an inode of the root-mounted
/// backend (same mount: must be delivered, with the backend's root inode), 1 = an inode of backend
/// B (refused), 2 = a pseudo-fs directory inode (refused: it is not part of the mounted backend).
pub fn c07_root_mount_two_dirs(is_link: bool, other: u8, root_first: bool) {
    let mut cfg = plain_cfg();
    cfg.root_mount = true;
    let vfs = mk_vfs(cfg);
    unsafe {
        B_ENTRY = Some(Entry::default());
        B_ERR = 0;
    }
    reset_blog();
    let ctx = Context { uid: 1, gid: 2, pid: 3 };
    let root = VfsInode::new(0, ROOT_ID);
    let (o, obits) = match other {
        0 => any_inode_at(IDX_A),
        1 => any_inode_at(IDX_B),
        _ => (VfsInode::new(0, 2), 2),
    };
    let (d1, d2) = if root_first { (root, o) } else { (o, root) };
    let err = if is_link {
        vfs.link(&ctx, d1, d2, name_x()).err().and_then(|e| e.raw_os_error())
    } else {
        vfs.rename(&ctx, d1, name_x(), d2, name_x(), 0).err().and_then(|e| e.raw_os_error())
    };
    unsafe {
        if other == 0 {
            assert!(err.is_none() && BLOG.calls == 1 && BLOG.who == IDX_A, "[C07] the VFS root with a root mount belongs to the mounted backend: same-mount operation is delivered");
            let (w1, w2) = if root_first { (1, obits) } else { (obits, 1) };
            assert!(BLOG.ino == w1 && BLOG.ino2 == w2, "[C07] delivered with the backend's own inode numbers (root = the backend's root inode)");
        } else {
            assert!(BLOG.calls == 0 && err == Some(libc::EINVAL), "[C07] an operation spanning the root mount and another filesystem is refused before any backend");
        }
    }
    kani::cover!(true, "reached");
    std::mem::forget(vfs);
}
vh!(c07_rootmnt_rename_same, 8, c07_root_mount_two_dirs(false, 0, true));
vh!(c07_rootmnt_rename_other_mount, 8, c07_root_mount_two_dirs(false, 1, true));
vh!(c07_rootmnt_rename_pseudo_dir, 8, c07_root_mount_two_dirs(false, 2, true));
vh!(c07_rootmnt_link_same_rev, 8, c07_root_mount_two_dirs(true, 0, false));


// ============================================================================ mount steps (C07 / C14)
macro_rules! mh {
    ($name:ident, $unwind:expr, $body:expr) => {
        #[kani::proof]
        #[kani::unwind($unwind)]
        #[kani::stub(std::rt::thread_cleanup, noop)]
        #[kani::stub(std::fmt::format, empty_string)]
        #[kani::stub(std::hash::RandomState::new, fixed_random_state)]
        #[kani::stub(crate::api::pseudo_fs::PseudoFs::mount, stub_pseudo_mount)]
        pub fn $name() {
            $body
        }
    };
}
/// same, with Vfs::insert_mount_locked replaced by a recorder (the insertion itself -- HashMap of
/// mount points -- is checked separately by c14_insert_mount_*)
macro_rules! mh_rec {
    ($name:ident, $unwind:expr, $body:expr) => {
        #[kani::proof]
        #[kani::unwind($unwind)]
        #[kani::stub(std::rt::thread_cleanup, noop)]
        #[kani::stub(std::fmt::format, empty_string)]
        #[kani::stub(std::hash::RandomState::new, fixed_random_state)]
        #[kani::stub(crate::api::vfs::Vfs::insert_mount_locked, rec_insert_mount_locked)]
        pub fn $name() {
            $body
        }
    };
}

/// set by the native replay wrapper: kani::stub does not exist in a native build, so the real
/// insert_mount_locked / PseudoFs::mount run there and the recorder assertions are skipped
pub static mut NATIVE_REPLAY: bool = false;
pub fn native_replay_init() {
    unsafe { NATIVE_REPLAY = true };
}
pub static mut INS_CALLS: u32 = 0;
pub static mut INS_IDX: u8 = 0;
pub static mut INS_ENTRY_INO: u64 = 0;
/// effective mapping of the allocated slot AT THE TIME the mount is inserted (the insertion
/// translates and caches the mount root entry with it)
pub static mut INS_EFF: Option<(u32, u32, u32)> = None;
pub fn rec_insert_mount_locked(vfs: &Vfs, fs: BackFileSystem, entry: Entry, fs_idx: VfsIndex, _path: &str) -> io::Result<()> {
    unsafe {
        INS_CALLS += 1;
        INS_IDX = fs_idx;
        INS_ENTRY_INO = entry.inode;
        INS_EFF = vfs.get_effective_id_mapping(fs_idx);
    }
    std::mem::forget(fs);
    Ok(())
}

fn table_maps(f: impl Fn(usize) -> Option<(u32, u32, u32)>) -> Vec<Option<(u32, u32, u32)>> {
    let arr: [Option<(u32, u32, u32)>; TABLE] = [f(0), f(1), f(2), f(3), f(4), f(5), f(6), f(7)];
    Vec::from(Box::new(arr) as Box<[_]>)
}

/// ONE Vfs::mount_with_id_mapping step from a state in which the slot about to be allocated
/// (3, vacant) may still carry ANY per-mount mapping (such states are reachable: an over-mount
/// vacates a slot without clearing its mapping -- shown natively by findings/c14_slot_reuse_demo.rs).
pub fn c14_mount_step_body() {
    let global = any_mapping();
    let map_a = any_mapping();
    let stale = any_mapping();
    let vfs = mk_vfs(VfsCfg { global, map_a, map_b: None, root_mount: false, opts: VfsOptions::default(), with_pseudo: false });
    vfs.next_super.store(IDX_VACANT, std::sync::atomic::Ordering::SeqCst);
    vfs.mount_id_mappings.store(Arc::new(table_maps(|i| if i == IDX_A as usize { map_a } else if i == IDX_VACANT as usize { stale } else { None })));
    let mut root = Entry::default();
    root.inode = kani::any();
    root.attr.st_uid = kani::any();
    root.attr.st_gid = kani::any();
    kani::assume(root.inode <= VFS_MAX_INO);
    let max_ino: u64 = kani::any();
    unsafe {
        B_MOUNT = Some((root, max_ino));
        INS_CALLS = 0;
    }
    let own = any_mapping();
    let r = vfs.mount_with_id_mapping(Box::new(Bk { id: IDX_VACANT }), "/x", own);
    let want = if own.is_some() { own } else { global };
    unsafe {
        if max_ino > VFS_MAX_INO {
            assert!(r.is_err() && INS_CALLS == 0, "[C07] a backend whose inode numbers do not fit 56 bits is not mounted");
        } else {
            assert!(matches!(r, Ok(i) if i == IDX_VACANT), "[C07] the new mount gets the next vacant index");
            assert!(vfs.get_effective_id_mapping(IDX_VACANT) == want,
                "[C14] a mount uses its own mapping if it was given one and the global mapping otherwise, regardless of which mounts previously occupied its slot");
            // the mount root as the client will see it: under Kani, what the recorder saw at insertion
            // time; in a native replay (no stubs), what the real insertion cached
            let (got_u, got_g) = if NATIVE_REPLAY {
                let mps = vfs.mountpoints.load();
                let m = mps.values().next().unwrap();
                (m.root_entry.attr.st_uid, m.root_entry.attr.st_gid)
            } else {
                match INS_EFF {
                    Some((i, e, n)) => (spec_remap(root.attr.st_uid, i, e, n), spec_remap(root.attr.st_gid, i, e, n)),
                    None => (root.attr.st_uid, root.attr.st_gid),
                }
            };
            let (wu, wg) = match want {
                Some((i, e, n)) => (spec_remap(root.attr.st_uid, i, e, n), spec_remap(root.attr.st_gid, i, e, n)),
                None => (root.attr.st_uid, root.attr.st_gid),
            };
            assert!(got_u == wu && got_g == wg, "[C14] owner ids of a mount root are translated internal->external with the mapping that is effective for the mount (recorded before the root is inserted)");
            if !NATIVE_REPLAY {
                assert!(INS_CALLS == 1 && INS_IDX == IDX_VACANT && INS_ENTRY_INO == root.inode, "[C07] the backend is inserted once, at the allocated index, with its own root entry");
                assert!(INS_EFF == want, "[C14] the mount root is translated with the mount's own mapping if it was given one and the global mapping otherwise (mapping recorded before insertion; no inheritance from a previous occupant of the slot)");
            }
            assert!(vfs.mount_id_mappings.load()[IDX_B as usize].is_none() && vfs.mount_id_mappings.load()[IDX_A as usize] == map_a, "[C14] mappings of other slots are untouched by a mount");
        }
    }
    kani::cover!(max_ino <= VFS_MAX_INO && stale.is_some() && own.is_none(), "slot with a stale mapping re-used by a mapping-less mount");
    kani::cover!(max_ino <= VFS_MAX_INO && own.is_some() && global.is_some(), "own mapping overrides the global one");
    std::mem::forget(r);
    std::mem::forget(vfs);
}
mh_rec!(c14_mount_step, 10, c14_mount_step_body());

/// Vfs::insert_mount_locked itself: registers the backend, vacates the covered filesystem's slot on
/// an over-mount, and caches the mount root translated with the slot's effective mapping.
pub fn c14_insert_mount(over: bool) {
    let global = any_mapping();
    let own = any_mapping();
    let vfs = mk_vfs(VfsCfg { global, map_a: None, map_b: None, root_mount: false, opts: VfsOptions::default(), with_pseudo: false });
    vfs.mount_id_mappings.store(Arc::new(table_maps(|i| if i == IDX_VACANT as usize { own } else { None })));
    if over {
        let mut mp: HashMap<u64, Arc<MountPointData>> = HashMap::new();
        mp.insert(PSEUDO_MNT_INO, Arc::new(MountPointData { fs_idx: IDX_A, ino: 1, root_entry: Entry::default(), _path: String::new() }));
        vfs.mountpoints.store(Arc::new(mp));
    }
    let mut root = Entry::default();
    root.inode = kani::any();
    root.attr.st_uid = kani::any();
    root.attr.st_gid = kani::any();
    kani::assume(root.inode != 0 && root.inode <= VFS_MAX_INO);
    let r = vfs.insert_mount_locked(Box::new(Bk { id: IDX_VACANT }), root, IDX_VACANT, "/x");
    assert!(r.is_ok(), "[C07] insertion succeeds");
    let sb = vfs.superblocks.load();
    assert!(sb[IDX_VACANT as usize].is_some() && sb[IDX_B as usize].is_some(), "[C07] the new backend is registered at its index; other mounts stay");
    assert!(sb[IDX_A as usize].is_some() == !over, "[C07] an over-mount vacates exactly the slot of the filesystem it covers");
    let mps = vfs.mountpoints.load();
    let mnt = mps.get(&PSEUDO_MNT_INO).unwrap();
    assert!(mnt.fs_idx == IDX_VACANT && mnt.ino == root.inode, "[C07] the mount point leads to the new mount's root inode");
    let want = if own.is_some() { own } else { global };
    let (wu, wg) = match want {
        Some((i, e, n)) => (spec_remap(root.attr.st_uid, i, e, n), spec_remap(root.attr.st_gid, i, e, n)),
        None => (root.attr.st_uid, root.attr.st_gid),
    };
    assert!(mnt.root_entry.attr.st_uid == wu && mnt.root_entry.attr.st_gid == wg, "[C14] owner ids of a mount root are translated internal->external with the mount's effective mapping");
    assert!(mnt.root_entry.inode == u64::from(VfsInode::new(IDX_VACANT, root.inode)) && mnt.root_entry.attr.st_ino == mnt.root_entry.inode,
        "[C07] the mount root is numbered (index, backend root inode)");
    kani::cover!(own.is_some(), "own mapping");
    std::mem::forget(r);
    std::mem::forget(vfs);
}
mh!(c14_insert_mount_fresh, 10, c14_insert_mount(false));
mh!(c14_insert_mount_over, 10, c14_insert_mount(true));

/// allocate_fs_idx as one step across the wrap-around: allocator at 253, full 256-entry table,
/// symbolic occupancy of the slots 253,254,255,1,2,3,4 (5 is vacant): the index returned is the
/// first vacant slot in allocation order, never the pseudo-fs index 0, never an occupied slot.
pub fn c07_allocate_idx_body() {
    let fs: Arc<BackFileSystem> = Arc::new(Box::new(Bk { id: 9 }));
    let occ: [bool; 7] = kani::any();
    let order: [usize; 7] = [253, 254, 255, 1, 2, 3, 4];
    let mut sb: Vec<Option<Arc<BackFileSystem>>> = vec![None; MAX_VFS_INDEX];
    let mut i = 0;
    while i < 7 {
        if occ[i] {
            sb[order[i]] = Some(fs.clone());
        }
        i += 1;
    }
    let vfs = mk_vfs(plain_cfg());
    vfs.superblocks.store(Arc::new(sb));
    vfs.next_super.store(253, std::sync::atomic::Ordering::SeqCst);
    let r = vfs.allocate_fs_idx();
    let idx = match r {
        Ok(i) => i as usize,
        Err(_) => 1000,
    };
    assert!(idx != 1000, "[C07] allocation succeeds while a slot is vacant");
    assert!(idx != VFS_PSEUDO_FS_IDX as usize, "[C07] index 0 (pseudo fs) is never handed to a mount");
    let mut want = 5;
    let mut j = 7;
    while j > 0 {
        j -= 1;
        if !occ[j] {
            want = order[j];
        }
    }
    assert!(idx == want, "[C07] a new mount gets the first vacant slot in allocation order, never an occupied one");
    kani::cover!(idx == 5, "wrapped around past the pseudo index and four occupied slots");
    kani::cover!(idx == 255, "before the wrap");
    std::mem::forget(r);
    std::mem::forget(vfs);
    std::mem::forget(fs);
}
mh!(c07_allocate_idx, 260, c07_allocate_idx_body());

/// cheap sharp instance: under a root mount of A, the inode (B, ROOT_ID) still belongs to B
pub fn c07_rootmnt_b_ino1_body() {
    let mut cfg = plain_cfg();
    cfg.root_mount = true;
    let vfs = mk_vfs(cfg);
    unsafe {
        B_ENTRY = Some(Entry::default());
        B_ERR = 0;
    }
    reset_blog();
    let ctx = Context { uid: 1, gid: 2, pid: 3 };
    let r = vfs.access(&ctx, VfsInode::new(IDX_B, ROOT_ID), 0);
    unsafe {
        assert!(r.is_ok() && BLOG.calls == 1 && BLOG.who == IDX_B && BLOG.ino == ROOT_ID, "[C07] inode (B, 1) is delivered to backend B also when another backend is mounted on the VFS root");
    }
    reset_blog();
    let r2 = vfs.access(&ctx, VfsInode::new(0, ROOT_ID), 0);
    unsafe {
        assert!(r2.is_ok() && BLOG.calls == 1 && BLOG.who == IDX_A && BLOG.ino == 1, "[C07] the VFS root itself is delivered to the root-mounted backend's root inode");
    }
    kani::cover!(true, "reached");
    std::mem::forget(vfs);
}
vh!(c07_rootmnt_b_ino1, 8, c07_rootmnt_b_ino1_body());

/// cheap sharp instances of the two-directory rule under a root mount (concrete inodes): the VFS
/// root belongs to the root-mounted backend A, so root <-> (A, 5) is one mount (delivered with A's
/// own numbers) and root <-> pseudo directory 2 spans two filesystems (refused before any backend).
pub fn c07_rootmnt_rename_concrete_body() {
    let mut cfg = plain_cfg();
    cfg.root_mount = true;
    let vfs = mk_vfs(cfg);
    unsafe {
        B_ENTRY = Some(Entry::default());
        B_ERR = 0;
    }
    reset_blog();
    let ctx = Context { uid: 1, gid: 2, pid: 3 };
    let root = VfsInode::new(0, ROOT_ID);
    let r = vfs.rename(&ctx, root, name_x(), VfsInode::new(IDX_A, 5), name_x(), 0);
    unsafe {
        assert!(r.is_ok() && BLOG.calls == 1 && BLOG.who == IDX_A, "[C07] the VFS root with a root mount belongs to the mounted backend: same-mount operation is delivered");
        assert!(BLOG.ino == 1 && BLOG.ino2 == 5, "[C07] delivered with the backend's own inode numbers (root = the backend's root inode)");
    }
    reset_blog();
    let r2 = vfs.rename(&ctx, root, name_x(), VfsInode::new(0, 2), name_x(), 0);
    unsafe {
        assert!(BLOG.calls == 0 && r2.err().and_then(|e| e.raw_os_error()) == Some(libc::EINVAL), "[C07] an operation spanning the root mount and another filesystem is refused before any backend");
    }
    reset_blog();
    let r3 = vfs.rename(&ctx, VfsInode::new(IDX_B, 4), name_x(), root, name_x(), 0);
    unsafe {
        assert!(BLOG.calls == 0 && r3.is_err(), "[C07] an operation spanning the root mount and another filesystem is refused before any backend");
    }
    kani::cover!(true, "reached");
    std::mem::forget(vfs);
}
vh!(c07_rootmnt_rename_concrete, 8, c07_rootmnt_rename_concrete_body());
