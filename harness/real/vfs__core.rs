// VFS harnesses (C07 routing, C14 id mapping, C12 option algebra, C06 name rejection) on a
// directly constructed `Vfs` (struct literal: no mount history, no path walking), with scripted
// recording backends behind the real `Box<dyn BackendFileSystem>` dispatch.
#![allow(unused_imports, static_mut_refs, dead_code, clippy::all)]
use super::*;
use std::any::Any;
use std::collections::HashMap;
use std::ffi::CStr;
use std::sync::atomic::{AtomicBool, AtomicU8};
use std::sync::{Arc, Mutex};
use std::time::Duration;

use crate::abi::fuse_abi::{stat64, CreateIn, FsOptions, OpenOptions, SetattrValid};
use crate::api::filesystem::{Context, DirEntry, Entry, FileSystem};

pub fn noop() {}
pub fn empty_string(_: std::fmt::Arguments<'_>) -> String {
    String::new()
}
/// std::hash::RandomState::new reads per-thread random keys (getrandom FFI + TLS); fixed keys
/// keep HashMap behaviour deterministic (hash KEYS stay concrete in every harness).
pub fn fixed_random_state() -> std::hash::RandomState {
    unsafe { std::mem::transmute::<(u64, u64), std::hash::RandomState>((0x0123_4567_89ab_cdef, 0x0fed_cba9_8765_4321)) }
}

/// what a backend saw
pub struct BLog {
    pub calls: u32,
    pub who: u8,
    pub method: u32,
    pub ino: u64,
    pub ino2: u64,
    pub uid: u32,
    pub gid: u32,
    pub st_uid: u32,
    pub st_gid: u32,
    pub inits: u32,
    pub init_opts: u64,
}
pub static mut BLOG: BLog = BLog { calls: 0, who: 0, method: 0, ino: 0, ino2: 0, uid: 0, gid: 0, st_uid: 0, st_gid: 0, inits: 0, init_opts: 0 };
/// what a backend answers
pub static mut B_ENTRY: Option<Entry> = None;
pub static mut B_ERR: i32 = 0;

pub const BM_LOOKUP: u32 = 1;
pub const BM_GETATTR: u32 = 3;
pub const BM_SETATTR: u32 = 4;
pub const BM_MKNOD: u32 = 8;
pub const BM_MKDIR: u32 = 9;
pub const BM_UNLINK: u32 = 10;
pub const BM_RMDIR: u32 = 11;
pub const BM_RENAME: u32 = 12;
pub const BM_LINK: u32 = 13;
pub const BM_OPEN: u32 = 14;
pub const BM_SYMLINK: u32 = 6;
pub const BM_CREATE: u32 = 35;
pub const BM_FORGET: u32 = 2;
pub const BM_READDIRPLUS: u32 = 44;
pub const BM_OTHER: u32 = 99;

pub struct Bk {
    pub id: u8,
}

fn brec(id: u8, m: u32, ctx: &Context, ino: u64) {
    unsafe {
        BLOG.calls += 1;
        BLOG.who = id;
        BLOG.method = m;
        BLOG.ino = ino;
        BLOG.uid = ctx.uid;
        BLOG.gid = ctx.gid;
    }
}
fn bentry() -> io::Result<Entry> {
    unsafe {
        if B_ERR != 0 {
            Err(io::Error::from_raw_os_error(B_ERR))
        } else {
            Ok(B_ENTRY.unwrap())
        }
    }
}

impl FileSystem for Bk {
    type Inode = u64;
    type Handle = u64;

    fn init(&self, capable: FsOptions) -> io::Result<FsOptions> {
        unsafe {
            BLOG.inits += 1;
            BLOG.init_opts = capable.bits();
        }
        Ok(capable)
    }
    fn lookup(&self, ctx: &Context, parent: u64, _name: &CStr) -> io::Result<Entry> {
        brec(self.id, BM_LOOKUP, ctx, parent);
        bentry()
    }
    fn forget(&self, ctx: &Context, inode: u64, _count: u64) {
        brec(self.id, BM_FORGET, ctx, inode);
    }
    fn getattr(&self, ctx: &Context, inode: u64, _h: Option<u64>) -> io::Result<(stat64, Duration)> {
        brec(self.id, BM_GETATTR, ctx, inode);
        bentry().map(|e| (e.attr, e.attr_timeout))
    }
    fn setattr(&self, ctx: &Context, inode: u64, attr: stat64, _h: Option<u64>, _v: SetattrValid) -> io::Result<(stat64, Duration)> {
        brec(self.id, BM_SETATTR, ctx, inode);
        unsafe {
            BLOG.st_uid = attr.st_uid;
            BLOG.st_gid = attr.st_gid;
        }
        bentry().map(|e| (e.attr, e.attr_timeout))
    }
    fn symlink(&self, ctx: &Context, _l: &CStr, parent: u64, _name: &CStr) -> io::Result<Entry> {
        brec(self.id, BM_SYMLINK, ctx, parent);
        bentry()
    }
    fn mknod(&self, ctx: &Context, inode: u64, _name: &CStr, _m: u32, _r: u32, _u: u32) -> io::Result<Entry> {
        brec(self.id, BM_MKNOD, ctx, inode);
        bentry()
    }
    fn mkdir(&self, ctx: &Context, parent: u64, _name: &CStr, _m: u32, _u: u32) -> io::Result<Entry> {
        brec(self.id, BM_MKDIR, ctx, parent);
        bentry()
    }
    fn unlink(&self, ctx: &Context, parent: u64, _name: &CStr) -> io::Result<()> {
        brec(self.id, BM_UNLINK, ctx, parent);
        Ok(())
    }
    fn rmdir(&self, ctx: &Context, parent: u64, _name: &CStr) -> io::Result<()> {
        brec(self.id, BM_RMDIR, ctx, parent);
        Ok(())
    }
    fn rename(&self, ctx: &Context, olddir: u64, _o: &CStr, newdir: u64, _n: &CStr, _f: u32) -> io::Result<()> {
        brec(self.id, BM_RENAME, ctx, olddir);
        unsafe { BLOG.ino2 = newdir };
        Ok(())
    }
    fn link(&self, ctx: &Context, inode: u64, newparent: u64, _n: &CStr) -> io::Result<Entry> {
        brec(self.id, BM_LINK, ctx, inode);
        unsafe { BLOG.ino2 = newparent };
        bentry()
    }
    fn open(&self, ctx: &Context, inode: u64, _f: u32, _ff: u32) -> io::Result<(Option<u64>, OpenOptions, Option<u32>)> {
        brec(self.id, BM_OPEN, ctx, inode);
        Ok((None, OpenOptions::empty(), None))
    }
    fn create(&self, ctx: &Context, parent: u64, _name: &CStr, _a: CreateIn) -> io::Result<(Entry, Option<u64>, OpenOptions, Option<u32>)> {
        brec(self.id, BM_CREATE, ctx, parent);
        bentry().map(|e| (e, None, OpenOptions::empty(), None))
    }
    fn readdirplus(
        &self,
        ctx: &Context,
        inode: u64,
        _handle: u64,
        _size: u32,
        _offset: u64,
        add_entry: &mut dyn FnMut(DirEntry, Entry) -> io::Result<usize>,
    ) -> io::Result<()> {
        brec(self.id, BM_READDIRPLUS, ctx, inode);
        let e = bentry()?;
        add_entry(DirEntry { ino: e.inode, offset: 1, type_: 0, name: b"x" }, e).map(|_| ())
    }
    fn access(&self, ctx: &Context, inode: u64, _mask: u32) -> io::Result<()> {
        brec(self.id, BM_OTHER, ctx, inode);
        Ok(())
    }
}

impl BackendFileSystem for Bk {
    fn as_any(&self) -> &dyn Any {
        self
    }
}

pub fn any_stat() -> stat64 {
    let mut st: stat64 = unsafe { std::mem::zeroed() };
    st.st_ino = kani::any();
    st.st_mode = kani::any();
    st.st_uid = kani::any();
    st.st_gid = kani::any();
    st.st_size = kani::any();
    st
}

pub fn any_entry() -> Entry {
    Entry {
        inode: kani::any(),
        generation: kani::any(),
        attr: any_stat(),
        attr_flags: kani::any(),
        attr_timeout: Duration::new(1, 0),
        entry_timeout: Duration::new(1, 0),
    }
}

pub const IDX_A: u8 = 1;
pub const IDX_B: u8 = 7;

pub struct VfsCfg {
    pub global: Option<(u32, u32, u32)>,
    pub map_a: Option<(u32, u32, u32)>,
    pub map_b: Option<(u32, u32, u32)>,
    pub root_mount: bool,
    pub opts: VfsOptions,
    pub with_pseudo: bool,
}

/// A Vfs with backend A at index 1 and backend B at index 7 (every other slot vacant), the real
/// 256-entry tables, and optionally a mount of A on the VFS root.
pub fn mk_vfs(cfg: VfsCfg) -> Vfs {
    // 256-entry tables built without loops (array -> Vec); the Vfs is mem::forget-ed by callers
    const NONE_FS: Option<Arc<BackFileSystem>> = None;
    let mut sb_arr: [Option<Arc<BackFileSystem>>; MAX_VFS_INDEX] = [NONE_FS; MAX_VFS_INDEX];
    sb_arr[IDX_A as usize] = Some(Arc::new(Box::new(Bk { id: IDX_A })));
    sb_arr[IDX_B as usize] = Some(Arc::new(Box::new(Bk { id: IDX_B })));
    let sb: Vec<Option<Arc<BackFileSystem>>> = Vec::from(Box::new(sb_arr) as Box<[_]>);
    let mut map_arr: [Option<(u32, u32, u32)>; MAX_VFS_INDEX] = [None; MAX_VFS_INDEX];
    map_arr[IDX_A as usize] = cfg.map_a;
    map_arr[IDX_B as usize] = cfg.map_b;
    let maps: Vec<Option<(u32, u32, u32)>> = Vec::from(Box::new(map_arr) as Box<[_]>);
    let mut mp: HashMap<u64, Arc<MountPointData>> = HashMap::new();
    if cfg.root_mount {
        mp.insert(
            ROOT_ID,
            Arc::new(MountPointData { fs_idx: IDX_A, ino: 1, root_entry: Entry::default(), _path: String::new() }),
        );
    }
    Vfs {
        next_super: AtomicU8::new(VFS_PSEUDO_FS_IDX + 1),
        root: crate::api::pseudo_fs::verif_mk::mk_pseudo_empty(),
        mountpoints: ArcSwap::new(Arc::new(mp)),
        superblocks: ArcSwap::new(Arc::new(sb)),
        mount_id_mappings: ArcSwap::new(Arc::new(maps)),
        opts: ArcSwap::new(Arc::new(cfg.opts)),
        initialized: AtomicBool::new(false),
        lock: Mutex::new(()),
        remove_pseudo_root: false,
        id_mapping: cfg.global,
    }
}

pub fn any_mapping() -> Option<(u32, u32, u32)> {
    if kani::any() {
        let m: (u32, u32, u32) = (kani::any(), kani::any(), kani::any());
        // a mapping is a pair of ranges inside the 32-bit id space (stated precondition)
        kani::assume(m.2 > 0);
        kani::assume((m.0 as u64) + (m.2 as u64) <= 1u64 << 32);
        kani::assume((m.1 as u64) + (m.2 as u64) <= 1u64 << 32);
        Some(m)
    } else {
        None
    }
}

/// reference semantics of the mapping (independent of remap_id)
pub fn spec_remap(v: u32, from: u32, to: u32, range: u32) -> u32 {
    let (v6, f6, t6, r6) = (v as u64, from as u64, to as u64, range as u64);
    if v6 >= f6 && v6 < f6 + r6 {
        (t6 + (v6 - f6)) as u32
    } else {
        v
    }
}

pub fn reset_blog() {
    unsafe {
        BLOG.calls = 0;
        BLOG.who = 0;
        BLOG.method = 0;
        BLOG.inits = 0;
    }
}

macro_rules! vh {
    ($name:ident, $unwind:expr, $body:expr) => {
        #[kani::proof]
        #[kani::unwind($unwind)]
        #[kani::stub(std::rt::thread_cleanup, noop)]
        #[kani::stub(std::fmt::format, empty_string)]
        #[kani::stub(std::hash::RandomState::new, fixed_random_state)]
        pub fn $name() {
            $body
        }
    };
}

// ============================================================================ C14 pure kernel
#[kani::proof]
pub fn c14_remap_id_all() {
    let (v, from, to, range): (u32, u32, u32, u32) = (kani::any(), kani::any(), kani::any(), kani::any());
    kani::assume((from as u64) + (range as u64) <= 1u64 << 32);
    kani::assume((to as u64) + (range as u64) <= 1u64 << 32);
    let r = remap_id(v, from, to, range);
    assert!(r == spec_remap(v, from, to, range), "[C14] remap_id: inside the source range -> to + (v - from), outside -> unchanged");
    let inside = (v as u64) >= from as u64 && (v as u64) < from as u64 + range as u64;
    if inside {
        assert!(remap_id(r, to, from, range) == v, "[C14] translation there and back is the identity on the range");
    } else {
        assert!(r == v, "[C14] ids outside the mapped range pass unchanged");
    }
    kani::cover!(inside && range > 1, "inside");
    kani::cover!(!inside && range > 0, "outside");
    kani::cover!(v == from.wrapping_add(range).wrapping_sub(1) && range > 0, "upper edge");
}

// ============================================================================ C07 pure kernels
#[kani::proof]
pub fn c07_inode_pack() {
    let idx: u8 = kani::any();
    let ino: u64 = kani::any();
    kani::assume(ino <= VFS_MAX_INO);
    let v = VfsInode::new(idx, ino);
    assert!(v.fs_idx() == idx && v.ino() == ino, "[C07] (mount index, backend inode) round-trips through the client-visible inode number");
    assert!(v.is_pseudo_fs() == (idx == 0), "[C07] index 0 is the pseudo filesystem");
    let raw: u64 = v.into();
    let w = VfsInode::from(raw);
    assert!(w.fs_idx() == idx && w.ino() == ino, "[C07] From<u64>/Into<u64> preserve the pair");
    kani::cover!(idx == 255 && ino == VFS_MAX_INO, "extremes");
}

vh!(c07_convert_inode, 8, {
    let vfs = mk_vfs(VfsCfg { global: None, map_a: None, map_b: None, root_mount: false, opts: VfsOptions::default(), with_pseudo: false });
    let idx: u8 = kani::any();
    let ino: u64 = kani::any();
    let r = vfs.convert_inode(idx, ino);
    if ino == 0 {
        assert!(matches!(r, Ok(0)), "[C07] a negative entry (inode 0) stays 0");
    } else if ino > VFS_MAX_INO {
        assert!(r.is_err(), "[C07] a backend inode that does not fit 56 bits is refused");
    } else {
        let x = r.unwrap();
        let v = VfsInode::from(x);
        assert!(v.fs_idx() == idx && v.ino() == ino, "[C07] client inode identifies exactly (mount index, backend inode)");
        assert!(idx == 0 || !v.is_pseudo_fs(), "[C07] a backend inode never aliases a pseudo inode");
    }
    kani::cover!(ino > VFS_MAX_INO, "too large");
    kani::cover!(ino != 0 && ino <= VFS_MAX_INO && idx > 0, "regular");
    std::mem::forget(vfs);
});
