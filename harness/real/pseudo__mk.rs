// Constructors for PseudoFs states (harness support; attached to api::pseudo_fs for field access).
#![allow(dead_code, clippy::all)]
use super::*;

/// An empty pseudo filesystem built by struct literal: root inode object only, inode table
/// EMPTY (PseudoFs::new() also registers the root in the HashMap; harnesses that look the root
/// up use `mk_pseudo_with_root`).
pub(crate) fn mk_pseudo_empty() -> PseudoFs {
    PseudoFs {
        next_inode: AtomicU64::new(PSEUDOFS_NEXT_INODE),
        root_inode: Arc::new(PseudoInode::new(ROOT_ID, ROOT_ID, String::new())),
        inodes: ArcSwap::new(Arc::new(HashMap::new())),
        lock: Mutex::new(()),
    }
}
