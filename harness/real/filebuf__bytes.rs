// C04 (last clause): "the buffer adapters used for file I/O behave as plain views of the underlying
// bytes".  `FileVolatileSlice` (src/common/file_buf.rs) is the adapter every file transfer goes
// through.  Each `Bytes<usize>` method is compared DIFFERENTIALLY with `vm_memory::VolatileSlice`
// over a twin array holding the same symbolic bytes, and additionally against the plain-array
// meaning of the operation (so a defect shared with vm-memory would still be seen).
#![allow(unused_imports, dead_code, clippy::all)]
use super::*;
use std::sync::atomic::Ordering;
use vm_memory::{Bytes, VolatileSlice};

pub fn empty_string(_: std::fmt::Arguments<'_>) -> String {
    String::new()
}

const M: usize = 8; // adapter memory
const B: usize = 4; // caller buffer

fn same(a: &[u8; M], b: &[u8; M]) -> bool {
    let mut i = 0;
    while i < M {
        if a[i] != b[i] {
            return false;
        }
        i += 1;
    }
    true
}

fn setup() -> ([u8; M], [u8; M], [u8; B], usize, usize) {
    let mem: [u8; M] = kani::any();
    let buf: [u8; B] = kani::any();
    let addr: usize = kani::any();
    let n: usize = kani::any();
    kani::assume(n <= B);
    (mem, mem, buf, addr, n)
}

macro_rules! fb {
    ($name:ident, $body:block) => {
        #[kani::proof]
        #[kani::unwind(10)]
        #[kani::stub(std::fmt::format, empty_string)]
        pub fn $name() $body
    };
}

// ---- read_slice: the caller's buffer receives mem[addr..addr+n]; memory is not modified
fb!(c04_filebuf_read_slice, {
    let (mut m1, mut m2, buf, addr, n) = setup();
    let orig = m1;
    let (mut b1, mut b2) = (buf, buf);
    let f = unsafe { FileVolatileSlice::from_raw_ptr(m1.as_mut_ptr(), M) };
    let v = unsafe { VolatileSlice::new(m2.as_mut_ptr(), M) };
    let r1 = f.read_slice(&mut b1[..n], addr);
    let r2 = v.read_slice(&mut b2[..n], addr);
    assert!(r1.is_ok() == r2.is_ok(), "[C04] FileVolatileSlice::read_slice succeeds exactly when a plain view would");
    assert!(same(&m1, &orig), "[C04] FileVolatileSlice::read_slice does not modify the underlying bytes");
    let fits = addr <= M && n <= M - addr;
    if fits {
        assert!(r1.is_ok(), "[C04] read_slice inside the slice succeeds");
        let mut i = 0;
        while i < B {
            if i < n {
                assert!(b1[i] == orig[addr + i], "[C04] FileVolatileSlice::read_slice copies the underlying bytes into the caller's buffer");
            } else {
                assert!(b1[i] == buf[i], "[C04] read_slice leaves the rest of the caller's buffer alone");
            }
            assert!(b1[i] == b2[i], "[C04] read_slice: same bytes as the plain view");
            i += 1;
        }
    } else if n > 0 {
        assert!(r1.is_err(), "[C04] read_slice beyond the slice fails");
    }
    kani::cover!(fits && n == B && addr == M - B, "read_slice touching the last byte");
    kani::cover!(!fits && n > 0, "read_slice out of range");
    std::mem::forget(r1);
    std::mem::forget(r2);
});

// ---- write_slice: mem[addr..addr+n] = buf, everything else unchanged; all or nothing
fb!(c04_filebuf_write_slice, {
    let (mut m1, mut m2, buf, addr, n) = setup();
    let orig = m1;
    let f = unsafe { FileVolatileSlice::from_raw_ptr(m1.as_mut_ptr(), M) };
    let v = unsafe { VolatileSlice::new(m2.as_mut_ptr(), M) };
    let r1 = f.write_slice(&buf[..n], addr);
    let r2 = v.write_slice(&buf[..n], addr);
    assert!(r1.is_ok() == r2.is_ok(), "[C04] FileVolatileSlice::write_slice succeeds exactly when a plain view would");
    assert!(same(&m1, &m2), "[C04] write_slice: same memory as the plain view");
    let fits = addr <= M && n <= M - addr;
    if fits {
        assert!(r1.is_ok(), "[C04] write_slice inside the slice succeeds");
        let mut i = 0;
        while i < M {
            if i >= addr && i < addr + n {
                assert!(m1[i] == buf[i - addr], "[C04] write_slice places the caller's bytes at addr");
            } else {
                assert!(m1[i] == orig[i], "[C04] write_slice leaves other bytes alone");
            }
            i += 1;
        }
    } else if n > 0 {
        // vm-memory's write_slice is write() + a length check: a range that starts inside and ends
        // beyond the slice stores the part that fits and then reports PartialBuffer.  A plain view
        // does exactly that, so only failure and equality with the twin are demanded here.
        assert!(r1.is_err(), "[C04] write_slice beyond the slice fails");
        if addr >= M {
            assert!(same(&m1, &orig), "[C04] write_slice starting beyond the slice writes nothing");
        }
    }
    kani::cover!(fits && n == B, "write_slice of the whole buffer");
    kani::cover!(!fits && n > 0, "write_slice out of range");
    std::mem::forget(r1);
    std::mem::forget(r2);
});

// ---- read / write (partial transfers allowed): count = min(n, M - addr)
fb!(c04_filebuf_read, {
    let (mut m1, mut m2, buf, addr, n) = setup();
    let orig = m1;
    let (mut b1, mut b2) = (buf, buf);
    let f = unsafe { FileVolatileSlice::from_raw_ptr(m1.as_mut_ptr(), M) };
    let v = unsafe { VolatileSlice::new(m2.as_mut_ptr(), M) };
    let r1 = f.read(&mut b1[..n], addr);
    let r2 = v.read(&mut b2[..n], addr);
    assert!(same(&m1, &orig), "[C04] FileVolatileSlice::read does not modify the underlying bytes");
    match (&r1, &r2) {
        (Ok(a), Ok(b)) => {
            assert!(*a == *b, "[C04] read: same count as the plain view");
            let k = *a;
            assert!(k <= n && (addr >= M || k <= M - addr), "[C04] read never exceeds the buffer or the slice");
            if addr < M {
                assert!(k == if n < M - addr { n } else { M - addr }, "[C04] read transfers min(len, remaining)");
            }
            let mut i = 0;
            while i < B {
                if i < k {
                    assert!(b1[i] == orig[addr + i], "[C04] FileVolatileSlice::read copies the underlying bytes in order");
                } else {
                    assert!(b1[i] == buf[i], "[C04] read leaves the rest of the caller's buffer alone");
                }
                i += 1;
            }
        }
        (Err(_), Err(_)) => {}
        _ => assert!(false, "[C04] FileVolatileSlice::read succeeds exactly when a plain view would"),
    }
    kani::cover!(matches!(r1, Ok(k) if k > 0 && k < n), "partial read at the end of the slice");
    std::mem::forget(r1);
    std::mem::forget(r2);
});

fb!(c04_filebuf_write, {
    let (mut m1, mut m2, buf, addr, n) = setup();
    let orig = m1;
    let f = unsafe { FileVolatileSlice::from_raw_ptr(m1.as_mut_ptr(), M) };
    let v = unsafe { VolatileSlice::new(m2.as_mut_ptr(), M) };
    let r1 = f.write(&buf[..n], addr);
    let r2 = v.write(&buf[..n], addr);
    assert!(same(&m1, &m2), "[C04] write: same memory as the plain view");
    match (&r1, &r2) {
        (Ok(a), Ok(b)) => {
            assert!(*a == *b, "[C04] write: same count as the plain view");
            let k = *a;
            assert!(k <= n, "[C04] write never exceeds the caller's buffer");
            let mut i = 0;
            while i < M {
                if i >= addr && i < addr + k {
                    assert!(m1[i] == buf[i - addr], "[C04] write places the caller's bytes at addr in order");
                } else {
                    assert!(m1[i] == orig[i], "[C04] write leaves other bytes alone");
                }
                i += 1;
            }
        }
        (Err(_), Err(_)) => assert!(same(&m1, &orig), "[C04] a failed write writes nothing"),
        _ => assert!(false, "[C04] FileVolatileSlice::write succeeds exactly when a plain view would"),
    }
    kani::cover!(matches!(r1, Ok(k) if k > 0 && k < n), "partial write at the end of the slice");
    std::mem::forget(r1);
    std::mem::forget(r2);
});

// ---- load / store of u32 (AtomicAccess)
fb!(c04_filebuf_load_store, {
    #[repr(align(8))]
    struct Al([u8; M]);
    let mut m1 = Al(kani::any());
    let orig = m1.0;
    let addr: usize = kani::any();
    kani::assume(addr % 4 == 0);
    let f = unsafe { FileVolatileSlice::from_raw_ptr(m1.0.as_mut_ptr(), M) };
    let r: Result<u32, _> = f.load(addr, Ordering::Relaxed);
    if addr <= M - 4 {
        let want = u32::from_ne_bytes([orig[addr], orig[addr + 1], orig[addr + 2], orig[addr + 3]]);
        assert!(matches!(r, Ok(x) if x == want), "[C04] FileVolatileSlice::load returns the underlying bytes");
    } else {
        assert!(r.is_err(), "[C04] load beyond the slice fails");
    }
    let val: u32 = kani::any();
    let w = f.store(val, addr, Ordering::Relaxed);
    if addr <= M - 4 {
        assert!(w.is_ok(), "[C04] store inside the slice succeeds");
        let got = val.to_ne_bytes();
        let mut i = 0;
        while i < M {
            if i >= addr && i < addr + 4 {
                assert!(m1.0[i] == got[i - addr], "[C04] FileVolatileSlice::store writes the value's bytes");
            } else {
                assert!(m1.0[i] == orig[i], "[C04] store leaves other bytes alone");
            }
            i += 1;
        }
    } else {
        assert!(w.is_err() && same(&m1.0, &orig), "[C04] store beyond the slice fails without writing");
    }
    kani::cover!(addr == 4, "aligned access in the second word");
    std::mem::forget(r);
    std::mem::forget(w);
});

// ---- geometry: offset / len / as_ptr / as_volatile_slice / borrow_as_buf
fb!(c04_filebuf_geometry, {
    let mut m1: [u8; M] = kani::any();
    let p = m1.as_mut_ptr() as usize;
    let f = unsafe { FileVolatileSlice::from_raw_ptr(m1.as_mut_ptr(), M) };
    assert!(f.len() == M && f.as_ptr() as usize == p && !f.is_empty(), "[C04] the adapter covers exactly the memory it was given");
    let c: usize = kani::any();
    match f.offset(c) {
        Ok(g) => {
            assert!(c <= M, "[C04] offset beyond the slice is refused");
            assert!(g.as_ptr() as usize == p + c && g.len() == M - c, "[C04] offset(c) is the suffix view starting c bytes in");
            let v = g.as_volatile_slice();
            assert!(v.len() == M - c && v.ptr_guard().as_ptr() as usize == p + c, "[C04] as_volatile_slice views the same bytes");
            let h = FileVolatileSlice::from_volatile_slice(&v);
            assert!(h.len() == M - c && h.as_ptr() as usize == p + c, "[C04] from_volatile_slice views the same bytes");
            let inited: bool = kani::any();
            let b = unsafe { g.borrow_as_buf(inited) };
            assert!(b.cap() == M - c && b.len() == if inited { M - c } else { 0 }, "[C04] borrow_as_buf: capacity = slice length, length = initialised part");
        }
        Err(_) => assert!(c > M, "[C04] offset within the slice succeeds"),
    }
    kani::cover!(c == M, "empty suffix");
});

// ---- FileVolatileBuf: the io-uring view exposes exactly [addr, addr+size) of [addr, addr+cap)
fb!(c04_filebuf_buf_views, {
    let mut m1: [u8; M] = kani::any();
    let p = m1.as_mut_ptr() as usize;
    let size: usize = kani::any();
    kani::assume(size <= M);
    let mut b = unsafe { FileVolatileBuf::new_with_data(&mut m1, size) };
    assert!(b.len() == size && b.cap() == M && b.is_empty() == (size == 0), "[C04] FileVolatileBuf: length/capacity as constructed");
    {
        let s = b.io_slice();
        assert!(s.len() == size && s.as_ptr() as usize == p, "[C04] io_slice is the initialised prefix");
    }
    {
        let s = b.io_slice_mut();
        assert!(s.len() == M - size && s.as_ptr() as usize == p + size, "[C04] io_slice_mut is the uninitialised remainder");
    }
    let ns: usize = kani::any();
    kani::assume(ns <= M);
    unsafe { b.set_size(ns) };
    assert!(b.len() == ns && b.cap() == M, "[C04] set_size changes the length only");
    kani::cover!(size > 0 && size < M, "partly initialised buffer");
});
