// Opcode handlers whose request carries NUL-terminated name(s) after a fixed structure.
// body = [S bytes structure][L bytes name area]; every byte symbolic; in_header.len concrete per
// instance (it sizes an allocation in get_message_body).
#![allow(unused_imports, static_mut_refs, clippy::all)]
use super::verif_support::*;
use super::*;
use crate::transport::{ghost, FuseBuf, Reader};

type Call = fn(&Srv, Ctx<'_>) -> crate::Result<usize>;

fn log() -> &'static Log {
    unsafe { &LOG }
}

fn first_nul(b: &[u8], from: usize) -> Option<usize> {
    let mut i = from;
    while i < b.len() {
        if b[i] == 0 {
            return Some(i);
        }
        i += 1;
    }
    None
}

fn name_matches(rec: &[u8; NB], rec_len: usize, b: &[u8], from: usize, nul: usize) -> bool {
    if rec_len != nul - from {
        return false;
    }
    let mut i = from;
    while i < nul {
        if rec[i - from] != b[i] {
            return false;
        }
        i += 1;
    }
    true
}

/// lenmode: 0 exact, 1 header length below 40+S (underflow), 2 claims one byte more than present,
/// 3 claims exactly the structure (empty name area)
fn hdr_len(s: usize, l: usize, lenmode: u8) -> u32 {
    match lenmode {
        0 => (40 + s + l) as u32,
        1 => (40 + s) as u32 - 1,
        2 => (40 + s + l + 1) as u32,
        _ => (40 + s) as u32,
    }
}

/// one-name opcodes.  B = S + L.
pub fn named<const B: usize, const W: usize>(
    p: u8,
    symname: bool,
    dev_refuses: bool,
    lenmode: u8,
    opcode: u32,
    s: usize,
    method: u32,
    reply_body: usize,
    call: Call,
    args: fn(&[u8]),
    reply_chk: fn(&[u8]),
) {
    let l = B - s;
    let mut hdr = any_hdr(opcode);
    hdr.len = hdr_len(s, l, lenmode);
    let mut body: [u8; B] = kani::any();
    if p == 2 {
        kani::assume(body[B - 1] == 0);
    }
    if !symname {
        // fixed name "a": the structure bytes stay symbolic
        body[s] = b'a';
        let mut i = s + 1;
        while i < B {
            body[i] = 0;
            i += 1;
        }
    }
    let snap = body;
    let mut wbuf = [0u8; W];
    // symbolic names are combined with a plain success answer, symbolic answers with a fixed
    // name (their product does not fit the solver budget; measured)
    let script = if symname { default_script() } else { script_for(p) };
    let res = drive(hdr, &mut body, &mut wbuf, dev_refuses, script, call);
    let nul = first_nul(&snap, s);
    let wellformed = lenmode == 0 && nul.is_some();
    let room = W >= K_OUT_HEADER_SIZE + reply_body;
    if p == 1 {
        check_c01(&hdr, &res, wellformed, true, room, dev_refuses);
        if !wellformed {
            assert!(calls() == 0, "[C01] a request without a valid name never reaches the filesystem");
            assert!(res.is_err(), "[C01] a request without a valid name is reported as an error");
        }
        if lenmode == 0 && nul.is_none() && room && !dev_refuses {
            assert!(emitted() && reply_error() == -libc::EINVAL, "[C01] a name without NUL is answered EINVAL (no hang)");
        }
    }
    if p == 2 && wellformed {
        check_call(method, &hdr);
        assert!(name_matches(&log().name, log().name_len, &snap, s, nul.unwrap()), "[C02] name bytes as encoded (up to the first NUL)");
        args(&snap);
    }
    if p == 3 && wellformed && room && !dev_refuses {
        assert!(emitted(), "[C03] the answer is sent");
        if check_reply_shape(reply_body) {
            reply_chk(reply());
        }
    }
    let full = wellformed && room && !dev_refuses;
    kani::cover!(lenmode != 0 || dev_refuses || !room || (full && emitted() && reply_error() == 0), "success reply reachable");
    kani::cover!(lenmode != 0 || p != 1 || !symname || (nul.is_none()), "missing NUL reachable");
    kani::cover!(true, "end reached");
}

/// two-name opcodes (symlink: name, linkname; rename/rename2: oldname, newname).
pub fn named2<const B: usize, const W: usize>(
    p: u8,
    symname: bool,
    dev_refuses: bool,
    lenmode: u8,
    opcode: u32,
    s: usize,
    method: u32,
    reply_body: usize,
    call: Call,
    args: fn(&[u8]),
    reply_chk: fn(&[u8]),
) {
    let l = B - s;
    let mut hdr = any_hdr(opcode);
    hdr.len = hdr_len(s, l, lenmode);
    let mut body: [u8; B] = kani::any();
    if p == 2 {
        kani::assume(body[B - 1] == 0);
    }
    if !symname {
        body[s] = b'a';
        body[s + 1] = 0;
        body[s + 2] = b'b';
        let mut i = s + 3;
        while i < B {
            body[i] = 0;
            i += 1;
        }
    }
    let snap = body;
    let mut wbuf = [0u8; W];
    let script = if symname { default_script() } else { script_for(p) };
    let res = drive(hdr, &mut body, &mut wbuf, dev_refuses, script, call);
    let n1 = first_nul(&snap, s);
    let n2 = match n1 {
        Some(a) if a + 1 < B => first_nul(&snap, a + 1),
        _ => None,
    };
    let wellformed = lenmode == 0 && n1.is_some() && n2.is_some();
    let room = W >= K_OUT_HEADER_SIZE + reply_body;
    if p == 1 {
        check_c01(&hdr, &res, wellformed, true, room, dev_refuses);
        if !wellformed {
            assert!(calls() == 0, "[C01] a request without two valid names never reaches the filesystem");
            assert!(res.is_err(), "[C01] a request without two valid names is reported as an error");
        }
    }
    if p == 2 && wellformed {
        check_call(method, &hdr);
        let (a, b) = (n1.unwrap(), n2.unwrap());
        if opcode == 6 {
            // SYMLINK: first string is the new name, second the link target
            assert!(name_matches(&log().name, log().name_len, &snap, s, a), "[C02] SYMLINK name as encoded");
            assert!(name_matches(&log().name2, log().name2_len, &snap, a + 1, b), "[C02] SYMLINK target as encoded");
        } else {
            assert!(name_matches(&log().name, log().name_len, &snap, s, a), "[C02] RENAME old name as encoded");
            assert!(name_matches(&log().name2, log().name2_len, &snap, a + 1, b), "[C02] RENAME new name as encoded");
        }
        args(&snap);
    }
    if p == 3 && wellformed && room && !dev_refuses {
        assert!(emitted(), "[C03] the answer is sent");
        if check_reply_shape(reply_body) {
            reply_chk(reply());
        }
    }
    kani::cover!(lenmode != 0 || dev_refuses || !room || (wellformed && emitted() && reply_error() == 0), "success reply reachable");
    kani::cover!(true, "end reached");
}

fn no_args(_b: &[u8]) {}
fn no_reply(_b: &[u8]) {}
fn entry_reply(r: &[u8]) {
    check_entry(r, 16, &sc().entry);
}
fn mknod_args(b: &[u8]) {
    let l = log();
    assert!(l.a[0] as u32 == get32(b, K_MKNOD_IN__MODE) && l.a[1] as u32 == get32(b, K_MKNOD_IN__RDEV) && l.a[2] as u32 == get32(b, K_MKNOD_IN__UMASK), "[C02] MKNOD mode/rdev/umask");
}
fn mkdir_args(b: &[u8]) {
    let l = log();
    assert!(l.a[0] as u32 == get32(b, K_MKDIR_IN__MODE) && l.a[1] as u32 == get32(b, K_MKDIR_IN__UMASK), "[C02] MKDIR mode/umask");
}
fn link_args(b: &[u8]) {
    assert!(log().ino2 == get64(b, K_LINK_IN__OLDNODEID), "[C02] LINK old node id");
}
fn create_args(b: &[u8]) {
    let l = log();
    assert!(l.a[0] as u32 == get32(b, K_CREATE_IN__FLAGS) && l.a[1] as u32 == get32(b, K_CREATE_IN__MODE)
        && l.a[2] as u32 == get32(b, K_CREATE_IN__UMASK) && l.a[3] as u32 == get32(b, K_CREATE_IN__OPEN_FLAGS), "[C02] CREATE flags/mode/umask/open_flags");
}
fn create_reply(r: &[u8]) {
    let s = sc();
    check_entry(r, 16, &s.entry);
    let o = 16 + K_ENTRY_OUT_SIZE;
    assert!(get64(r, o + K_OPEN_OUT__FH) == s.handle.unwrap_or(0), "[C03] create open_out.fh");
    assert!(get32(r, o + K_OPEN_OUT__OPEN_FLAGS) == OpenOptions::from_bits_truncate(s.opts).bits(), "[C03] create open_out.open_flags");
    assert!(get32(r, o + 12) == s.passthrough.unwrap_or(0), "[C03] create open_out passthrough/backing id");
}
fn rename_args(b: &[u8]) {
    let l = log();
    assert!(l.ino2 == get64(b, K_RENAME_IN__NEWDIR), "[C02] RENAME new directory");
    assert!(l.a[0] == 0, "[C02] RENAME carries no flags");
}
fn rename2_args(b: &[u8]) {
    let l = log();
    assert!(l.ino2 == get64(b, K_RENAME2_IN__NEWDIR), "[C02] RENAME2 new directory");
    // RENAME_NOREPLACE=1, RENAME_EXCHANGE=2, RENAME_WHITEOUT=4
    assert!(l.a[0] as u32 == get32(b, K_RENAME2_IN__FLAGS) & 7, "[C02] RENAME2 flags as encoded (the three rename flags)");
}
fn getxattr_args(b: &[u8]) {
    assert!(log().a[0] as u32 == get32(b, K_GETXATTR_IN__SIZE), "[C02] GETXATTR size");
}

macro_rules! h {
    ($name:ident, $body:expr) => {
        #[kani::proof]
        #[kani::unwind(16)]
        #[kani::stub(std::rt::thread_cleanup, noop)]
        #[kani::stub(std::fmt::format, empty_string)]
        #[kani::stub(std::ffi::CStr::from_bytes_with_nul, cstr_from_bytes_with_nul)]
        pub fn $name() {
            $body
        }
    };
}

/// L = 4 name-area bytes in the standard instances (names of length 0..3, or no NUL at all);
/// c02_l8 uses 8.
macro_rules! nfamily {
    ($m:ident, $f:ident, $op:expr, $s:expr, $meth:expr, $r:expr, $call:expr, $args:expr, $reply:expr) => {
        pub mod $m {
            use super::*;
            // symbolic name bytes, plain success answer
            h!(c01, $f::<{ $s + 4 }, { 16 + $r + 8 }>(1, true, false, 0, $op, $s, $meth, $r, $call, $args, $reply));
            h!(c02, $f::<{ $s + 4 }, { 16 + $r + 8 }>(2, true, false, 0, $op, $s, $meth, $r, $call, $args, $reply));
            h!(c02_l8, $f::<{ $s + 8 }, { 16 + $r + 8 }>(2, true, false, 0, $op, $s, $meth, $r, $call, $args, $reply));
            h!(c01_lenhigh, $f::<{ $s + 4 }, { 16 + $r + 8 }>(1, true, false, 2, $op, $s, $meth, $r, $call, $args, $reply));
            h!(c01_noname, $f::<{ $s + 4 }, { 16 + $r + 8 }>(1, true, false, 3, $op, $s, $meth, $r, $call, $args, $reply));
            h!(c01_badname_tiny, $f::<{ $s + 4 }, 15>(1, true, false, 0, $op, $s, $meth, $r, $call, $args, $reply));
            // fixed name, symbolic answer
            h!(c01_ans, $f::<{ $s + 4 }, { 16 + $r + 8 }>(1, false, false, 0, $op, $s, $meth, $r, $call, $args, $reply));
            h!(c03, $f::<{ $s + 4 }, { 16 + $r + 8 }>(3, false, false, 0, $op, $s, $meth, $r, $call, $args, $reply));
            h!(c01_nospace, $f::<{ $s + 4 }, { 16 + $r - 1 }>(1, false, false, 0, $op, $s, $meth, $r, $call, $args, $reply));
            h!(c01_tiny, $f::<{ $s + 4 }, 15>(1, false, false, 0, $op, $s, $meth, $r, $call, $args, $reply));
            h!(c01_devfail, $f::<{ $s + 4 }, { 16 + $r + 8 }>(1, false, true, 0, $op, $s, $meth, $r, $call, $args, $reply));
        }
    };
}

nfamily!(lookup, named, 1, 0, M_LOOKUP, K_ENTRY_OUT_SIZE, |s, c| s.lookup(c), no_args, entry_reply);
nfamily!(mknod, named, 8, K_MKNOD_IN_SIZE, M_MKNOD, K_ENTRY_OUT_SIZE, |s, c| s.mknod(c), mknod_args, entry_reply);
nfamily!(mkdir, named, 9, K_MKDIR_IN_SIZE, M_MKDIR, K_ENTRY_OUT_SIZE, |s, c| s.mkdir(c), mkdir_args, entry_reply);
nfamily!(unlink, named, 10, 0, M_UNLINK, 0, |s, c| s.unlink(c), no_args, no_reply);
nfamily!(rmdir, named, 11, 0, M_RMDIR, 0, |s, c| s.rmdir(c), no_args, no_reply);
nfamily!(link, named, 13, K_LINK_IN_SIZE, M_LINK, K_ENTRY_OUT_SIZE, |s, c| s.link(c), link_args, entry_reply);
nfamily!(create, named, 35, K_CREATE_IN_SIZE, M_CREATE, { K_ENTRY_OUT_SIZE + K_OPEN_OUT_SIZE }, |s, c| s.create(c), create_args, create_reply);
nfamily!(removexattr, named, 24, 0, M_REMOVEXATTR, 0, |s, c| s.removexattr(c), no_args, no_reply);
nfamily!(symlink, named2, 6, 0, M_SYMLINK, K_ENTRY_OUT_SIZE, |s, c| s.symlink(c), no_args, entry_reply);
nfamily!(rename, named2, 12, K_RENAME_IN_SIZE, M_RENAME, 0, |s, c| s.rename(c), rename_args, no_reply);
nfamily!(rename2, named2, 45, K_RENAME2_IN_SIZE, M_RENAME, 0, |s, c| s.rename2(c), rename2_args, no_reply);

// ---------------------------------------------------------------- LOOKUP negative-entry rule
/// protocol minor < 4: an entry with inode 0 must be sent as ENOENT; from 4 on as an entry.
pub fn lookup_negative(minor: u32) {
    let mut hdr = any_hdr(1);
    hdr.len = 40 + 2;
    let mut body = [b'a', 0u8];
    let mut wbuf = [0u8; 160];
    let mut script = any_script();
    script.err = 0;
    let res = drive(hdr, &mut body, &mut wbuf, false, script, |s, c| {
        s.vers.store(Arc::new(ServerVersion { major: 7, minor }));
        s.lookup(c)
    });
    let s = sc();
    assert!(emitted() && res.is_ok(), "[C03] lookup answered");
    if minor < 4 && s.entry.inode == 0 {
        assert!(reply_error() == -libc::ENOENT && reply_len() == 16, "[C03] negative entry is ENOENT before protocol 7.4");
    } else {
        assert!(reply_error() == 0 && reply_len() == 16 + K_ENTRY_OUT_SIZE, "[C03] entry (also a zero inode) is sent as an entry from 7.4 on");
        check_entry(reply(), 16, &s.entry);
    }
    kani::cover!(s.entry.inode == 0, "negative entry");
    kani::cover!(s.entry.inode != 0, "positive entry");
}
pub mod lookup_neg {
    use super::*;
    h!(c03_minor3, lookup_negative(3));
    h!(c03_minor4, lookup_negative(4));
}

// ---------------------------------------------------------------- GETXATTR (name; value or count reply)
pub fn getxattr<const L: usize, const W: usize, const PL: usize>(p: u8, symname: bool, dev_refuses: bool, lenmode: u8, count_reply: bool) {
    const S: usize = K_GETXATTR_IN_SIZE;
    let mut hdr = any_hdr(22);
    hdr.len = hdr_len(S, L, lenmode);
    let mut body: [u8; 8 + 8] = kani::any(); // S + up to 8; only S+L presented
    if p == 2 {
        kani::assume(body[S + L - 1] == 0);
    }
    if !symname {
        body[S] = b'a';
        let mut i = S + 1;
        while i < S + L {
            body[i] = 0;
            i += 1;
        }
    }
    let snap = body;
    let mut wbuf = [0u8; W];
    let mut script = if symname { default_script() } else { script_for(p) };
    if p != 2 && !symname {
        // payload length concrete per instance (a symbolic-length Vec copy exhausts the solver)
        script.bytes_len = PL;
        script.bytes = kani::any();
        script.reply_count = count_reply;
        if p == 3 && PL > 0 && !count_reply {
            // see ops_a::bytes_reply: payload content against a plain success only
            script.err = 0;
        }
    }
    let res = drive(hdr, &mut body[..S + L], &mut wbuf, dev_refuses, script, |s, c| s.getxattr(c));
    let nul = first_nul(&snap[..S + L], S);
    let wellformed = lenmode == 0 && nul.is_some();
    let room = W >= 16 + 8;
    let s = sc();
    if p == 1 {
        check_c01(&hdr, &res, wellformed, true, room, dev_refuses);
        if !wellformed {
            assert!(calls() == 0 && res.is_err(), "[C01] GETXATTR without a valid name is rejected");
        }
    }
    if p == 2 && wellformed {
        check_call(M_GETXATTR, &hdr);
        assert!(name_matches(&log().name, log().name_len, &snap, S, nul.unwrap()), "[C02] GETXATTR name as encoded");
        getxattr_args(&snap);
    }
    if p == 3 && wellformed && room && !dev_refuses {
        assert!(emitted(), "[C03] the answer is sent");
        let r = reply();
        if s.err != 0 {
            assert!(reply_error() == -expected_errno(s.err) && reply_len() == 16, "[C03] error as negated errno");
        } else if kn_reply_count() {
            assert!(reply_len() == 16 + K_GETXATTR_OUT_SIZE && reply_error() == 0, "[C03] xattr size reply is a getxattr_out");
            assert!(get32(r, 16 + K_GETXATTR_OUT__SIZE) == s.v32 && get32(r, 16 + K_GETXATTR_OUT__PADDING) == 0, "[C03] getxattr_out.size");
        } else {
            assert!(reply_len() == 16 + kn_bytes_len() && reply_error() == 0, "[C03] xattr value reply carries exactly the value");
            let mut i = 0;
            while i < kn_bytes_len() {
                assert!(r[16 + i] == kn_bytes()[i], "[C03] xattr value content");
                i += 1;
            }
        }
    }
    kani::cover!(lenmode != 0 || dev_refuses || !room || symname || (emitted() && (reply_len() > 16 || PL == 0)), "payload reply reachable");
    kani::cover!(true, "end reached");
}
pub mod getxattr_h {
    use super::*;
    h!(c01, getxattr::<4, 40, 3>(1, true, false, 0, false));
    h!(c02, getxattr::<4, 40, 3>(2, true, false, 0, false));
    h!(c02_l8, getxattr::<8, 40, 3>(2, true, false, 0, false));
    h!(c01_lenhigh, getxattr::<4, 40, 3>(1, true, false, 2, false));
    h!(c01_ans, getxattr::<4, 40, 3>(1, false, false, 0, false));
    h!(c03, getxattr::<4, 40, 3>(3, false, false, 0, false));
    h!(c03_len0, getxattr::<4, 40, 0>(3, false, false, 0, false));
    h!(c03_count, getxattr::<4, 40, 0>(3, false, false, 0, true));
    h!(c03_len8, getxattr::<4, 40, 8>(3, false, false, 0, false));
    h!(c01_nospace, getxattr::<4, 20, 3>(1, false, false, 0, false));
    h!(c01_devfail, getxattr::<4, 40, 3>(1, false, true, 0, false));
}

// ---------------------------------------------------------------- SETXATTR (name NUL value, size field)
pub fn setxattr<const L: usize, const W: usize>(p: u8, symname: bool, dev_refuses: bool, lenmode: u8) {
    const S: usize = K_COMPAT_SETXATTR_IN_SIZE; // the crate implements the 8-byte form (no SETXATTR_EXT)
    let mut hdr = any_hdr(21);
    hdr.len = hdr_len(S, L, lenmode);
    let mut body: [u8; 8 + 8] = kani::any();
    if !symname {
        // fixed "a" NUL then L-2 value bytes, size field consistent
        body[S] = b'a';
        body[S + 1] = 0;
        put32(&mut body, K_SETXATTR_IN__SIZE, (L - 2) as u32);
    }
    let snap = body;
    let mut wbuf = [0u8; W];
    let script = if symname { default_script() } else { script_for(p) };
    let res = drive(hdr, &mut body[..S + L], &mut wbuf, dev_refuses, script, |s, c| s.setxattr(c));
    let nul = first_nul(&snap[..S + L], S);
    let size = get32(&snap, K_SETXATTR_IN__SIZE);
    let wellformed = lenmode == 0 && nul.is_some() && size as usize == S + L - nul.unwrap_or(0) - 1;
    let room = W >= 16;
    if p == 1 {
        check_c01(&hdr, &res, wellformed, true, room, dev_refuses);
        if !wellformed {
            assert!(calls() == 0 && res.is_err(), "[C01] malformed SETXATTR is rejected before the filesystem");
        }
    }
    if p == 2 && wellformed {
        check_call(M_SETXATTR, &hdr);
        let n = nul.unwrap();
        assert!(name_matches(&log().name, log().name_len, &snap, S, n), "[C02] SETXATTR name as encoded");
        assert!(log().data_len == S + L - n - 1, "[C02] SETXATTR value length as encoded");
        let mut i = 0;
        while i < log().data_len {
            assert!(log().data[i] == snap[n + 1 + i], "[C02] SETXATTR value bytes as encoded");
            i += 1;
        }
        assert!(log().a[0] as u32 == get32(&snap, K_SETXATTR_IN__FLAGS), "[C02] SETXATTR flags");
    }
    if p == 3 && wellformed && room && !dev_refuses {
        assert!(emitted(), "[C03] the answer is sent");
        check_reply_shape(0);
    }
    kani::cover!(lenmode != 0 || dev_refuses || (wellformed && log().data_len > 0), "non-empty value reachable");
    kani::cover!(lenmode != 0 || !symname || (wellformed && log().data_len == 0), "empty value reachable");
}
pub mod setxattr_h {
    use super::*;
    h!(c01, setxattr::<5, 32>(1, true, false, 0));
    h!(c02, setxattr::<5, 32>(2, true, false, 0));
    h!(c02_l8, setxattr::<8, 32>(2, true, false, 0));
    h!(c01_lenhigh, setxattr::<5, 32>(1, true, false, 2));
    h!(c01_ans, setxattr::<5, 32>(1, false, false, 0));
    h!(c03, setxattr::<5, 32>(3, false, false, 0));
    h!(c01_tiny, setxattr::<5, 15>(1, false, false, 0));
    h!(c01_devfail, setxattr::<5, 32>(1, false, true, 0));
}


// ---------------------------------------------------------------- in_header.len below the fixed part
/// `get_message_body` for ALL header lengths below 40 + the opcode's fixed structure: refused
/// with InvalidHeaderLength, nothing read, nothing allocated.  (Per-handler instances of this case
/// ran out of memory: CBMC explores the wrapped-around allocation size; every name-carrying
/// handler obtains its name through this one function.)
#[kani::proof]
#[kani::unwind(4)]
#[kani::stub(std::fmt::format, empty_string)]
pub fn c01_get_message_body_underflow() {
    let len: u32 = kani::any();
    let sub: usize = kani::any();
    kani::assume(sub <= 4096);
    kani::assume((len as usize) < 40 + sub);
    let mut buf = [0u8; 8];
    let mut r = Reader::<()>::from_fuse_buffer(FuseBuf::new(&mut buf)).unwrap();
    let mut hdr = any_hdr(1);
    hdr.len = len;
    let res = ServerUtil::get_message_body(&mut r, &hdr, sub);
    assert!(matches!(res, Err(crate::Error::InvalidHeaderLength)), "[C01] a header length below the fixed part of the request is refused");
    assert!(r.available_bytes() == 8, "[C01] nothing is consumed from the request on a length lie");
    kani::cover!(len == 0, "zero length");
    kani::cover!(len as usize == 40 + sub - 1 && sub > 0, "one below");
    std::mem::forget(res);
}

/// and for lengths that are consistent: exactly len - 40 - sub bytes are taken, in order
#[kani::proof]
#[kani::unwind(12)]
#[kani::stub(std::fmt::format, empty_string)]
pub fn c01_get_message_body_exact() {
    let extra: usize = kani::any();
    kani::assume(extra <= 8);
    let sub: usize = kani::any();
    kani::assume(sub <= 64);
    let mut buf: [u8; 8] = kani::any();
    let snap = buf;
    let mut r = Reader::<()>::from_fuse_buffer(FuseBuf::new(&mut buf)).unwrap();
    let mut hdr = any_hdr(1);
    hdr.len = (40 + sub + extra) as u32;
    let res = ServerUtil::get_message_body(&mut r, &hdr, sub).unwrap();
    assert!(res.len() == extra && r.available_bytes() == 8 - extra, "[C01] exactly the announced number of bytes is taken");
    let mut i = 0;
    while i < 8 {
        if i < extra {
            assert!(res[i] == snap[i], "[C01] body bytes in order");
        }
        i += 1;
    }
    kani::cover!(extra == 8, "whole buffer");
    std::mem::forget(res);
}
