// C12: INIT negotiation through the real `Server::init` handler (model transport).
// InitIn fields, flags2, the filesystem's wanted options: all symbolic.  Payload presence
// (16 / 64 / 40 bytes after the header) concrete per instance.
#![allow(unused_imports, static_mut_refs, clippy::all)]
use super::verif_support::*;
use super::*;
use crate::transport::ghost;

const INIT_EXT: u64 = 1 << 30;
const BIG_WRITES: u64 = 1 << 5;
const MAX_PAGES: u64 = 1 << 22;

fn log() -> &'static Log {
    unsafe { &LOG }
}

/// `class`: 0 = major < 7, 1 = major > 7, 2 = major == 7 (minor symbolic)
pub fn init<const N: usize, const W: usize>(class: u8, dev_refuses: bool, fs_fails: bool) {
    let hdr = any_hdr(26);
    let mut body: [u8; N] = kani::any();
    let major: u32 = kani::any();
    match class {
        0 => kani::assume(major < 7),
        1 => kani::assume(major > 7),
        _ => kani::assume(major == 7),
    }
    put32(&mut body, K_INIT_IN__MAJOR, major);
    let snap = body;
    let minor = get32(&snap, K_INIT_IN__MINOR);
    let readahead = get32(&snap, K_INIT_IN__MAX_READAHEAD);
    let flags = get32(&snap, K_INIT_IN__FLAGS) as u64;
    let has_ext_payload = N >= K_INIT_IN_SIZE; // full fuse_init_in (64 bytes) present
    let flags2 = if has_ext_payload { get32(&snap, K_INIT_IN__FLAGS2) as u64 } else { 0 };

    let mut script = default_script();
    script.want = kani::any();
    script.err = if fs_fails { any_err_code(false) } else { 0 };
    let mut wbuf = [0u8; W];
    let mut called_params = false;
    let mut seen_vers_minor = 0u32;
    let res = drive(hdr, &mut body, &mut wbuf, dev_refuses, script, |s, c| {
        let r = s.init(c, |_p| {});
        seen_vers_minor = s.vers.load().minor;
        r
    });
    let _ = called_params;
    let s = sc();
    check_reply_stream(hdr.unique);
    let r = reply();

    if class == 0 {
        assert!(calls() == 0, "[C12] an unsupported major version never reaches the filesystem");
        if !dev_refuses {
            assert!(emitted() && reply_error() == -libc::EPROTO && reply_len() == 16, "[C12] major < 7 is answered EPROTO");
        }
        assert!(seen_vers_minor == 33, "[C12] a refused INIT leaves the negotiated version untouched");
    } else if class == 1 {
        assert!(calls() == 0, "[C12] a newer major version is not negotiated yet: filesystem untouched");
        if !dev_refuses {
            assert!(emitted() && reply_error() == 0, "[C12] major > 7 is answered with the supported version");
            assert!(get32(r, 16 + K_INIT_OUT__MAJOR) == 7 && get32(r, 16 + K_INIT_OUT__MINOR) == 33, "[C12] the reply announces 7.33");
            assert!(get32(r, 16 + K_INIT_OUT__FLAGS) == 0 && get32(r, 16 + K_INIT_OUT__FLAGS2) == 0 && get32(r, 16 + K_INIT_OUT__MAX_WRITE) == 0, "[C12] nothing is enabled before the client comes back with 7.x");
        }
        assert!(seen_vers_minor == 33, "[C12] version unchanged until the real negotiation");
    } else {
        // capable as the protocol defines it
        let ext = flags & INIT_EXT != 0 && has_ext_payload;
        let mut cap_bits = flags;
        if ext {
            cap_bits |= flags2 << 32;
        } else {
            cap_bits &= !INIT_EXT;
        }
        let capable = FsOptions::from_bits_truncate(cap_bits);
        assert!(calls() == 1 && log().method == M_INIT, "[C12] the filesystem is initialised exactly once");
        assert!(log().a[0] == capable.bits(), "[C12] the filesystem is offered exactly the client's capability words (extended word only with INIT_EXT and its payload)");
        if fs_fails {
            if !dev_refuses {
                assert!(emitted() && reply_error() == -expected_errno(s.err) && reply_len() == 16, "[C12] a failing filesystem init is answered with its errno");
            }
            assert!(seen_vers_minor == 33, "[C12] version unchanged when init fails");
        } else if !dev_refuses {
            let want = FsOptions::from_bits_truncate(s.want);
            let enabled = (capable & want).bits();
            let size = if minor < 5 { K_COMPAT_INIT_OUT_SIZE } else if minor < 23 { K_COMPAT_22_INIT_OUT_SIZE } else { K_INIT_OUT_SIZE };
            if W < 16 + size {
                assert!(!emitted(), "[C12] a reply that does not fit is not sent in part");
                return;
            }
            assert!(emitted() && reply_error() == 0, "[C12] successful INIT is answered");
            assert!(reply_len() == 16 + size, "[C12] the reply is laid out for the client's minor version (8 / 24 / 64 bytes)");
            assert!(get32(r, 16 + K_INIT_OUT__MAJOR) == 7 && get32(r, 16 + K_INIT_OUT__MINOR) == 33, "[C12] reply version");
            if size >= K_COMPAT_22_INIT_OUT_SIZE {
                let rflags = get32(r, 16 + K_INIT_OUT__FLAGS) as u64;
                assert!(get32(r, 16 + K_INIT_OUT__MAX_READAHEAD) == readahead, "[C12] max_readahead echoed");
                let mw = get32(r, 16 + K_INIT_OUT__MAX_WRITE);
                let big = enabled & (BIG_WRITES | MAX_PAGES) != 0;
                assert!(mw == if big { 1 << 20 } else { 4096 }, "[C12] max_write is 4 KiB unless big writes / max pages were negotiated, then 1 MiB");
                assert!(mw <= MAX_BUFFER_SIZE, "[C12] write-size limit fits the transport buffers");
                assert!(get16(r, 16 + K_INIT_OUT__MAX_BACKGROUND) == u16::MAX && get16(r, 16 + K_INIT_OUT__CONGESTION_THRESHOLD) == (u16::MAX / 4) * 3, "[C12] background limits");
                if size == K_INIT_OUT_SIZE {
                    let rflags2 = get32(r, 16 + K_INIT_OUT__FLAGS2) as u64;
                    let reply_bits = rflags | (rflags2 << 32);
                    // what the CLIENT will honour: flags2 only counts together with INIT_EXT
                    let honoured = if rflags & INIT_EXT != 0 { reply_bits } else { rflags };
                    assert!(reply_bits & !INIT_EXT == enabled & !INIT_EXT, "[C12] the reply enables precisely the intersection of offered and wanted features");
                    assert!(honoured & !INIT_EXT == enabled & !INIT_EXT, "[C12] extended bits are sent together with the extended-flags marker so the client honours them");
                    assert!(rflags & INIT_EXT == 0 || capable.bits() & INIT_EXT != 0, "[C12] INIT_EXT is only sent to a client that offered it");
                    assert!(get16(r, 16 + K_INIT_OUT__MAX_PAGES) == if enabled & MAX_PAGES != 0 { 256 } else { 0 }, "[C12] max_pages only with MAX_PAGES");
                    assert!(get32(r, 16 + K_INIT_OUT__TIME_GRAN) == 1, "[C12] time granularity");
                } else {
                    assert!(rflags & !INIT_EXT == (enabled & 0xffff_ffff) & !INIT_EXT, "[C12] 7.5..7.22 reply carries the low feature word");
                }
            }
            assert!(seen_vers_minor == minor, "[C12] the negotiated minor version is recorded on success");
        }
    }
    let _ = res;
    kani::cover!(class != 2 || fs_fails || dev_refuses || W < 80 || (emitted() && reply_len() == 16 + 64), "full-size reply");
    kani::cover!(class != 2 || fs_fails || dev_refuses || W < 80 || N < 64 || (emitted() && reply_len() == 16 + 64 && get32(r, 16 + K_INIT_OUT__FLAGS2) != 0), "extended bits enabled");
    kani::cover!(class != 2 || fs_fails || dev_refuses || (emitted() && reply_len() == 16 + 8), "compat 8-byte reply");
    kani::cover!(true, "end reached");
}

macro_rules! h {
    ($name:ident, $body:expr) => {
        #[kani::proof]
        #[kani::unwind(16)]
        #[kani::stub(std::rt::thread_cleanup, noop)]
        #[kani::stub(std::fmt::format, empty_string)]
        pub fn $name() {
            $body
        }
    };
}

pub mod init_h {
    use super::*;
    h!(c12_major_low, init::<16, 96>(0, false, false));
    h!(c12_major_high, init::<64, 96>(1, false, false));
    h!(c12_v7_legacy, init::<16, 96>(2, false, false));
    h!(c12_v7_ext, init::<64, 96>(2, false, false));
    h!(c12_v7_ext_partial, init::<40, 96>(2, false, false));
    h!(c12_v7_fs_fails, init::<64, 96>(2, false, true));
    h!(c12_v7_devfail, init::<64, 96>(2, true, false));
    h!(c12_v7_nospace, init::<64, 79>(2, false, false));
}
