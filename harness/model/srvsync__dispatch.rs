// Dispatcher harnesses: the real `Server::handle_message` (header decode, per-request id
// translation, oversize rule, opcode dispatch) with a CONCRETE opcode and a minimal well-formed
// body, every other header field symbolic.  One instance per opcode + undispatched values.
#![allow(unused_imports, static_mut_refs, clippy::all)]
use super::verif_support::*;
use super::*;
use crate::transport::ghost;

fn log() -> &'static Log {
    unsafe { &LOG }
}

fn zeros(_b: &mut [u8]) {}
fn name1(b: &mut [u8]) {
    let n = b.len();
    b[n - 2] = b'a';
}
fn name2(b: &mut [u8]) {
    let n = b.len();
    b[n - 4] = b'a';
    b[n - 2] = b'b';
}
fn setx(b: &mut [u8]) {
    // size = 1, "a" NUL "v"
    put32(b, 40 + K_SETXATTR_IN__SIZE, 1);
    let n = b.len();
    b[n - 3] = b'a';
    b[n - 1] = b'v';
}
fn init7(b: &mut [u8]) {
    put32(b, 40 + K_INIT_IN__MAJOR, 7);
    put32(b, 40 + K_INIT_IN__MINOR, 33);
}

/// lenmode 0: in_header.len = actual length; 1: oversize (1 MiB + 4 KiB + 1); 2: symbolic
/// (only for opcodes whose handler never sizes an allocation from it)
pub fn dispatch<const N: usize>(p: u8, op: u32, method: u32, fill: fn(&mut [u8]), lenmode: u8, wants_reply: bool) {
    let mut req = [0u8; N];
    let len: u32 = match lenmode {
        0 => N as u32,
        1 => (1u32 << 20) + 0x1000 + 1,
        _ => kani::any(),
    };
    let (unique, nodeid, uid, gid, pid) = sym_header(&mut req, op, len);
    fill(&mut req);
    set_script(default_script());
    reset_log();
    ghost::reset(false);
    let server = new_server();
    let mut wbuf = [0u8; 256];
    let res = handle(&server, &mut req, &mut wbuf);
    std::mem::forget(server);

    let oversize = len > (1u32 << 20) + 0x1000;
    check_reply_stream(unique);
    let ev = unsafe { ghost::DEV.events };
    if p == 1 {
        if oversize {
            assert!(calls() == 0, "[C01] an oversize request never reaches a filesystem operation");
            if op == 2 || op == 42 {
                assert!(ev == 0 && res.is_err(), "[C01] oversize FORGET/BATCH_FORGET produce no reply");
            } else {
                assert!(ev == 1 && emitted() && reply_error() == -libc::ENOMEM, "[C01] an oversize request is answered ENOMEM");
            }
        } else {
            if wants_reply {
                assert!(ev == 1, "[C01] a well-formed request that requires an answer gets exactly one reply");
            } else {
                assert!(ev == 0, "[C01] no reply for an opcode the protocol has no answer for");
            }
            if method == M_NONE && wants_reply {
                assert!(calls() == 0 && reply_error() == -libc::ENOSYS, "[C01] an undispatched opcode is answered ENOSYS without touching the filesystem");
            }
        }
    }
    if p == 2 && !oversize {
        unsafe {
            assert!(LOG.remaps == 1 && LOG.remap_nodeid == nodeid, "[C02] exactly one caller-id translation, with the request's node id");
            if method == M_NONE {
                assert!(LOG.calls == 0, "[C02] no filesystem operation for this opcode");
            } else {
                assert!(LOG.calls == 1, "[C02] exactly one filesystem operation per request");
                assert!(LOG.method == method, "[C02] the operation the opcode denotes is the one invoked");
                if method != M_DESTROY && method != M_NOTIFY_REPLY && method != M_INIT {
                    assert!(LOG.uid == uid && LOG.gid == gid && LOG.pid == pid as i32, "[C02] caller ids as encoded in the header");
                    if method != M_BATCH_FORGET {
                        assert!(LOG.ino == nodeid, "[C02] node id as encoded in the header");
                    }
                }
            }
        }
    }
    kani::cover!(lenmode != 2 || oversize, "oversize length reachable");
    kani::cover!(lenmode == 1 || !oversize, "regular length reachable");
    kani::cover!(true, "end reached");
}

macro_rules! h {
    ($name:ident, $body:expr) => {
        #[kani::proof]
        #[kani::unwind(16)]
        #[kani::stub(std::rt::thread_cleanup, noop)]
        #[kani::stub(std::fmt::format, empty_string)]
        #[kani::stub(std::ffi::CStr::from_bytes_with_nul, cstr_from_bytes_with_nul)]
        pub fn $name() {
            $body
        }
    };
}

/// $n: request length (40 + body), $sym: true if in_header.len may be symbolic for this opcode
macro_rules! d {
    ($m:ident, $op:expr, $meth:expr, $n:expr, $fill:expr, $wants:expr, $sym:expr) => {
        pub mod $m {
            use super::*;
            h!(c01, dispatch::<{ $n }>(1, $op, $meth, $fill, if $sym { 2 } else { 0 }, $wants));
            h!(c02, dispatch::<{ $n }>(2, $op, $meth, $fill, if $sym { 2 } else { 0 }, $wants));
            h!(c01_oversize, dispatch::<{ $n }>(1, $op, $meth, $fill, 1, $wants));
        }
    };
}

d!(lookup, 1, M_LOOKUP, 40 + 2, name1, true, false);
d!(forget, 2, M_FORGET, 40 + K_FORGET_IN_SIZE, zeros, false, true);
d!(getattr, 3, M_GETATTR, 40 + K_GETATTR_IN_SIZE, zeros, true, true);
d!(setattr, 4, M_SETATTR, 40 + K_SETATTR_IN_SIZE, zeros, true, true);
d!(readlink, 5, M_READLINK, 40, zeros, true, true);
d!(symlink, 6, M_SYMLINK, 40 + 4, name2, true, false);
d!(mknod, 8, M_MKNOD, 40 + K_MKNOD_IN_SIZE + 2, name1, true, false);
d!(mkdir, 9, M_MKDIR, 40 + K_MKDIR_IN_SIZE + 2, name1, true, false);
d!(unlink, 10, M_UNLINK, 40 + 2, name1, true, false);
d!(rmdir, 11, M_RMDIR, 40 + 2, name1, true, false);
d!(rename, 12, M_RENAME, 40 + K_RENAME_IN_SIZE + 4, name2, true, false);
d!(link, 13, M_LINK, 40 + K_LINK_IN_SIZE + 2, name1, true, false);
d!(open, 14, M_OPEN, 40 + K_OPEN_IN_SIZE, zeros, true, true);
d!(read, 15, M_READ, 40 + K_READ_IN_SIZE, zeros, true, true);
d!(write, 16, M_WRITE, 40 + K_WRITE_IN_SIZE, zeros, true, true);
d!(statfs, 17, M_STATFS, 40, zeros, true, true);
d!(release, 18, M_RELEASE, 40 + K_RELEASE_IN_SIZE, zeros, true, true);
d!(fsync, 20, M_FSYNC, 40 + K_FSYNC_IN_SIZE, zeros, true, true);
d!(setxattr, 21, M_SETXATTR, 40 + K_COMPAT_SETXATTR_IN_SIZE + 3, setx, true, false);
d!(getxattr, 22, M_GETXATTR, 40 + K_GETXATTR_IN_SIZE + 2, name1, true, false);
d!(listxattr, 23, M_LISTXATTR, 40 + K_GETXATTR_IN_SIZE, zeros, true, true);
d!(removexattr, 24, M_REMOVEXATTR, 40 + 2, name1, true, false);
d!(flush, 25, M_FLUSH, 40 + K_FLUSH_IN_SIZE, zeros, true, true);
d!(init, 26, M_INIT, 40 + 16, init7, true, true);
d!(opendir, 27, M_OPENDIR, 40 + K_OPEN_IN_SIZE, zeros, true, true);
d!(readdir, 28, M_READDIR, 40 + K_READ_IN_SIZE, zeros, true, true);
d!(releasedir, 29, M_RELEASEDIR, 40 + K_RELEASE_IN_SIZE, zeros, true, true);
d!(fsyncdir, 30, M_FSYNCDIR, 40 + K_FSYNC_IN_SIZE, zeros, true, true);
d!(getlk, 31, M_GETLK, 40 + K_LK_IN_SIZE, zeros, true, true);
d!(setlk, 32, M_SETLK, 40 + K_LK_IN_SIZE, zeros, true, true);
d!(setlkw, 33, M_SETLKW, 40 + K_LK_IN_SIZE, zeros, true, true);
d!(access, 34, M_ACCESS, 40 + K_ACCESS_IN_SIZE, zeros, true, true);
d!(create, 35, M_CREATE, 40 + K_CREATE_IN_SIZE + 2, name1, true, false);
d!(interrupt, 36, M_NONE, 40 + K_INTERRUPT_IN_SIZE, zeros, false, true);
d!(bmap, 37, M_BMAP, 40 + K_BMAP_IN_SIZE, zeros, true, true);
d!(destroy, 38, M_DESTROY, 40, zeros, true, true);
d!(ioctl, 39, M_IOCTL, 40 + K_IOCTL_IN_SIZE, zeros, true, true);
d!(poll, 40, M_POLL, 40 + K_POLL_IN_SIZE, zeros, true, true);
d!(batch_forget, 42, M_BATCH_FORGET, 40 + K_BATCH_FORGET_IN_SIZE, zeros, false, true);
d!(fallocate, 43, M_FALLOCATE, 40 + K_FALLOCATE_IN_SIZE, zeros, true, true);
d!(readdirplus, 44, M_READDIRPLUS, 40 + K_READ_IN_SIZE, zeros, true, true);
d!(rename2, 45, M_RENAME, 40 + K_RENAME2_IN_SIZE + 4, name2, true, false);
d!(lseek, 46, M_LSEEK, 40 + K_LSEEK_IN_SIZE, zeros, true, true);
// NOTIFY_REPLY: the scripted filesystem accepts it -> operation invoked, no reply
d!(notify_reply, 41, M_NOTIFY_REPLY, 40, zeros, false, true);
// undispatched values: holes, COPY_FILE_RANGE (no handler), virtio-fs opcodes without the
// feature, beyond the table, byte-swapped INIT
d!(op0, 0, M_NONE, 40 + 8, zeros, true, true);
d!(op7, 7, M_NONE, 40 + 8, zeros, true, true);
d!(op19, 19, M_NONE, 40 + 8, zeros, true, true);
d!(op47, 47, M_NONE, 40 + 8, zeros, true, true);
d!(op48, 48, M_NONE, 40 + 8, zeros, true, true);
d!(op49, 49, M_NONE, 40 + 8, zeros, true, true);
d!(op50, 50, M_NONE, 40 + 8, zeros, true, true);
d!(op_bswap, 436207616, M_NONE, 40 + 8, zeros, true, true);
d!(op_max, 0xffff_ffff, M_NONE, 40 + 8, zeros, true, true);

/// Header shorter than 40 bytes: nothing decoded, no filesystem call, no reply.
pub fn short_header<const N: usize>() {
    let mut req: [u8; N] = kani::any();
    set_script(default_script());
    reset_log();
    ghost::reset(false);
    let server = new_server();
    let mut wbuf = [0u8; 64];
    let res = handle(&server, &mut req, &mut wbuf);
    std::mem::forget(server);
    unsafe {
        assert!(res.is_err() && LOG.calls == 0 && LOG.remaps == 0 && ghost::DEV.events == 0, "[C01] a request shorter than the header is rejected without side effects");
    }
    kani::cover!(true, "end reached");
}
pub mod short {
    use super::*;
    h!(c01_len0, short_header::<0>());
    h!(c01_len39, short_header::<39>());
}
