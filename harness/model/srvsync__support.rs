// Shared support for the opcode harness family (C01/C02/C03/C12/C20) — model overlay.
// Attached as a child module of api::server::sync_io so it can reach Server's private parts.
#![allow(dead_code, unused_imports, static_mut_refs, clippy::all)]

use std::ffi::CStr;
use std::io;
use std::sync::Arc;
use std::time::Duration;

use super::*;
use crate::abi::fuse_abi::*;
use crate::api::filesystem::{
    Context, DirEntry, Entry, FileLock as FsFileLock, FileSystem, GetxattrReply, IoctlData,
    ListxattrReply, ZeroCopyReader, ZeroCopyWriter,
};
use crate::transport::ghost;
pub use super::verif_koff::*;
use crate::transport::{FuseBuf, FuseDevWriter, Reader, Writer};

pub fn noop() {}

/// Stub for `CStr::from_bytes_with_nul`: std's body verbatim with `memchr::memchr(0, bytes)`
/// replaced by its specification (index of the first 0 byte, naive loop).  std's memchr switches
/// to a word-at-a-time scan based on pointer alignment, which CBMC can only treat as nondet.
pub fn cstr_from_bytes_with_nul(bytes: &[u8]) -> std::result::Result<&CStr, std::ffi::FromBytesWithNulError> {
    let mut i = 0;
    let mut pos = None;
    while i < bytes.len() {
        if bytes[i] == 0 {
            pos = Some(i);
            break;
        }
        i += 1;
    }
    match pos {
        Some(p) if p + 1 == bytes.len() => Ok(unsafe { CStr::from_bytes_with_nul_unchecked(bytes) }),
        Some(position) => Err(std::ffi::FromBytesWithNulError::InteriorNul { position }),
        None => Err(std::ffi::FromBytesWithNulError::NotNulTerminated),
    }
}
pub fn empty_string(_: std::fmt::Arguments<'_>) -> String {
    String::new()
}

// ---------------------------------------------------------------- method ids
pub const M_NONE: u32 = 0;
pub const M_LOOKUP: u32 = 1;
pub const M_FORGET: u32 = 2;
pub const M_GETATTR: u32 = 3;
pub const M_SETATTR: u32 = 4;
pub const M_READLINK: u32 = 5;
pub const M_SYMLINK: u32 = 6;
pub const M_MKNOD: u32 = 8;
pub const M_MKDIR: u32 = 9;
pub const M_UNLINK: u32 = 10;
pub const M_RMDIR: u32 = 11;
pub const M_RENAME: u32 = 12;
pub const M_LINK: u32 = 13;
pub const M_OPEN: u32 = 14;
pub const M_READ: u32 = 15;
pub const M_WRITE: u32 = 16;
pub const M_STATFS: u32 = 17;
pub const M_RELEASE: u32 = 18;
pub const M_FSYNC: u32 = 20;
pub const M_SETXATTR: u32 = 21;
pub const M_GETXATTR: u32 = 22;
pub const M_LISTXATTR: u32 = 23;
pub const M_REMOVEXATTR: u32 = 24;
pub const M_FLUSH: u32 = 25;
pub const M_INIT: u32 = 26;
pub const M_OPENDIR: u32 = 27;
pub const M_READDIR: u32 = 28;
pub const M_RELEASEDIR: u32 = 29;
pub const M_FSYNCDIR: u32 = 30;
pub const M_GETLK: u32 = 31;
pub const M_SETLK: u32 = 32;
pub const M_SETLKW: u32 = 33;
pub const M_ACCESS: u32 = 34;
pub const M_CREATE: u32 = 35;
pub const M_BMAP: u32 = 37;
pub const M_DESTROY: u32 = 38;
pub const M_IOCTL: u32 = 39;
pub const M_POLL: u32 = 40;
pub const M_NOTIFY_REPLY: u32 = 41;
pub const M_BATCH_FORGET: u32 = 42;
pub const M_FALLOCATE: u32 = 43;
pub const M_READDIRPLUS: u32 = 44;
pub const M_LSEEK: u32 = 46;
pub const M_SETUPMAPPING: u32 = 48;
pub const M_REMOVEMAPPING: u32 = 49;

pub const NB: usize = 12;

/// What the filesystem saw.
pub struct Log {
    pub calls: u32,
    pub remaps: u32,
    pub method: u32,
    pub uid: u32,
    pub gid: u32,
    pub pid: i32,
    pub remap_nodeid: u64,
    pub ino: u64,
    pub ino2: u64,
    pub fh: u64,
    pub has_fh: bool,
    pub a: [u64; 8],
    pub b: [bool; 4],
    pub opt: u64,
    pub has_opt: bool,
    pub name: [u8; NB],
    pub name_len: usize,
    pub name2: [u8; NB],
    pub name2_len: usize,
    pub data: [u8; NB],
    pub data_len: usize,
    pub st: Option<stat64>,
    pub pairs: [(u64, u64); 4],
    pub npairs: usize,
}

pub static mut LOG: Log = Log {
    calls: 0,
    remaps: 0,
    method: 0,
    uid: 0,
    gid: 0,
    pid: 0,
    remap_nodeid: 0,
    ino: 0,
    ino2: 0,
    fh: 0,
    has_fh: false,
    a: [0; 8],
    b: [false; 4],
    opt: 0,
    has_opt: false,
    name: [0; NB],
    name_len: 0,
    name2: [0; NB],
    name2_len: 0,
    data: [0; NB],
    data_len: 0,
    st: None,
    pairs: [(0, 0); 4],
    npairs: 0,
};

/// What the filesystem answers (set by the harness before the request is handled).
pub struct Script {
    /// 0 = Ok; 1..=4095 = Err(os errno); negative = Err(non-OS kind number -err)
    pub err: i32,
    pub entry: Entry,
    pub st: stat64,
    pub dur: Duration,
    pub handle: Option<u64>,
    pub opts: u32,
    pub passthrough: Option<u32>,
    pub v64: u64,
    pub v32: u32,
    pub count: usize,
    pub lock: FsFileLock,
    pub bytes: [u8; NB],
    pub bytes_len: usize,
    pub reply_count: bool,
    pub want: u64,
    pub remap_fails: bool,
    /// readdir script: number of entries offered and their name length
    pub nent: usize,
    pub ent_namelen: usize,
    pub ent_ino: u64,
    pub ent_off: u64,
    pub ent_type: u32,
    pub ioctl_result: i32,
}

pub static mut SCRIPT: Option<Script> = None;
// size/shape knobs are mirrored into scalar statics: read back through Option<Script> they lose
// their constness in CBMC and every copy becomes a symbolic-size memcpy (measured: 35M variables)
pub static mut KN_BYTES_LEN: usize = 0;
pub static mut KN_REPLY_COUNT: bool = false;
pub static mut KN_NENT: usize = 0;
pub static mut KN_ENT_NAMELEN: usize = 0;
/// payload bytes live in their own static too (read back through Option<Script> CBMC returned
/// different values to two readers of the same field: spurious counterexamples)
pub static mut KN_BYTES: [u8; NB] = [0; NB];
pub static mut KN_ERR: i32 = 0;

pub fn set_script(sc: Script) {
    unsafe {
        KN_BYTES_LEN = sc.bytes_len;
        KN_REPLY_COUNT = sc.reply_count;
        KN_NENT = sc.nent;
        KN_ENT_NAMELEN = sc.ent_namelen;
        KN_BYTES = sc.bytes;
        KN_ERR = sc.err;
        SCRIPT = Some(sc);
    }
}
pub fn kn_bytes_len() -> usize {
    unsafe { KN_BYTES_LEN }
}
pub fn kn_reply_count() -> bool {
    unsafe { KN_REPLY_COUNT }
}
pub fn kn_bytes() -> &'static [u8; NB] {
    unsafe { &KN_BYTES }
}
pub fn kn_nent() -> usize {
    unsafe { KN_NENT }
}
pub fn kn_ent_namelen() -> usize {
    unsafe { KN_ENT_NAMELEN }
}

pub fn zero_stat() -> stat64 {
    unsafe { std::mem::zeroed() }
}

pub fn any_stat() -> stat64 {
    let mut st: stat64 = zero_stat();
    st.st_dev = kani::any();
    st.st_ino = kani::any();
    st.st_nlink = kani::any();
    st.st_mode = kani::any();
    st.st_uid = kani::any();
    st.st_gid = kani::any();
    st.st_rdev = kani::any();
    st.st_size = kani::any();
    st.st_blksize = kani::any();
    st.st_blocks = kani::any();
    st.st_atime = kani::any();
    st.st_atime_nsec = kani::any();
    st.st_mtime = kani::any();
    st.st_mtime_nsec = kani::any();
    st.st_ctime = kani::any();
    st.st_ctime_nsec = kani::any();
    st
}

/// seconds symbolic, sub-second part concrete (see `any_entry_nanos` for why)
pub fn any_duration() -> Duration {
    Duration::new(kani::any(), 123_456_789)
}

pub fn any_entry() -> Entry {
    any_entry_nanos(999_999_999, 1)
}

/// Entry whose timeouts have CONCRETE sub-second parts: `Option<Entry>` stores its discriminant
/// in the niche of `Duration::nanos`, so symbolic nanoseconds make `Some(entry)` look possibly-None
/// to CBMC's constant propagation (measured: add_dirent explodes to > 6M symex steps).
pub fn any_entry_nanos(attr_ns: u32, entry_ns: u32) -> Entry {
    Entry {
        inode: kani::any(),
        generation: kani::any(),
        attr: any_stat(),
        attr_flags: kani::any(),
        attr_timeout: Duration::new(kani::any(), attr_ns),
        entry_timeout: Duration::new(kani::any(), entry_ns),
    }
}

pub fn default_script() -> Script {
    Script {
        err: 0,
        entry: Entry::default(),
        st: zero_stat(),
        dur: Duration::new(0, 0),
        handle: None,
        opts: 0,
        passthrough: None,
        v64: 0,
        v32: 0,
        count: 0,
        lock: FsFileLock {
            start: 0,
            end: 0,
            lock_type: 0,
            pid: 0,
        },
        bytes: [0; NB],
        bytes_len: 0,
        reply_count: false,
        want: 0,
        remap_fails: false,
        nent: 0,
        ent_namelen: 0,
        ent_ino: 0,
        ent_off: 0,
        ent_type: 0,
        ioctl_result: 0,
    }
}

/// The non-OS error kinds a filesystem may return (the enum is non_exhaustive; these are the
/// ones `encode_io_error_kind` distinguishes plus representatives of the catch-all arm).
pub const KINDS: [io::ErrorKind; 9] = [
    io::ErrorKind::PermissionDenied,
    io::ErrorKind::NotFound,
    io::ErrorKind::Interrupted,
    io::ErrorKind::AlreadyExists,
    io::ErrorKind::WouldBlock,
    io::ErrorKind::InvalidInput,
    io::ErrorKind::TimedOut,
    io::ErrorKind::UnexpectedEof,
    io::ErrorKind::Other,
];

/// independent table of the errno each kind must be sent as (C03 oracle)
pub fn kind_errno(k: usize) -> i32 {
    match k {
        0 => 13, // EPERM|EACCES as the library documents it (1|13 == 13)
        1 => 2,
        2 => 4,
        3 => 17,
        4 => 11,
        _ => 5,
    }
}

pub fn any_err_code(allow_kinds: bool) -> i32 {
    let e: i32 = kani::any();
    if allow_kinds {
        kani::assume((e >= 1 && e <= 4095) || (e <= -1 && e >= -(KINDS.len() as i32)));
    } else {
        kani::assume(e >= 1 && e <= 4095);
    }
    e
}

pub fn mk_err(code: i32) -> io::Error {
    if code > 0 {
        io::Error::from_raw_os_error(code)
    } else {
        io::Error::from(KINDS[(-code - 1) as usize])
    }
}

/// errno the wire must carry for a scripted error code
pub fn expected_errno(code: i32) -> i32 {
    if code > 0 {
        code
    } else {
        kind_errno((-code - 1) as usize)
    }
}

/// the scripted payload as a fresh Vec (built element-wise)
fn payload_vec() -> Vec<u8> {
    let s = script();
    let n = kn_bytes_len();
    let mut v = Vec::with_capacity(n);
    let mut i = 0;
    while i < n {
        v.push(kn_bytes()[i]);
        i += 1;
    }
    v
}

fn script() -> &'static Script {
    unsafe { SCRIPT.as_ref().unwrap() }
}

fn fail() -> Option<io::Error> {
    let e = unsafe { KN_ERR };
    if e != 0 {
        Some(mk_err(e))
    } else {
        None
    }
}

fn rec(method: u32, ctx: &Context, ino: u64) {
    unsafe {
        LOG.calls += 1;
        LOG.method = method;
        LOG.uid = ctx.uid;
        LOG.gid = ctx.gid;
        LOG.pid = ctx.pid;
        LOG.ino = ino;
    }
}

fn rec_name(name: &CStr) {
    let b = name.to_bytes();
    unsafe {
        LOG.name_len = b.len();
        let mut i = 0;
        while i < b.len() && i < NB {
            LOG.name[i] = b[i];
            i += 1;
        }
    }
}

fn rec_name2(name: &CStr) {
    let b = name.to_bytes();
    unsafe {
        LOG.name2_len = b.len();
        let mut i = 0;
        while i < b.len() && i < NB {
            LOG.name2[i] = b[i];
            i += 1;
        }
    }
}

fn rec_data(b: &[u8]) {
    unsafe {
        LOG.data_len = b.len();
        let mut i = 0;
        while i < b.len() && i < NB {
            LOG.data[i] = b[i];
            i += 1;
        }
    }
}

fn rec_fh(h: Option<u64>) {
    unsafe {
        LOG.has_fh = h.is_some();
        LOG.fh = h.unwrap_or(0);
    }
}

fn rec_opt(h: Option<u64>) {
    unsafe {
        LOG.has_opt = h.is_some();
        LOG.opt = h.unwrap_or(0);
    }
}

/// Scripted + recording filesystem. Implements EVERY method of FileSystem (no default left).
pub struct SymFs;

impl FileSystem for SymFs {
    type Inode = u64;
    type Handle = u64;

    fn init(&self, capable: FsOptions) -> io::Result<FsOptions> {
        unsafe {
            LOG.calls += 1;
            LOG.method = M_INIT;
            LOG.a[0] = capable.bits();
        }
        if let Some(e) = fail() {
            return Err(e);
        }
        Ok(FsOptions::from_bits_truncate(script().want))
    }

    fn destroy(&self) {
        unsafe {
            LOG.calls += 1;
            LOG.method = M_DESTROY;
        }
    }

    fn lookup(&self, ctx: &Context, parent: u64, name: &CStr) -> io::Result<Entry> {
        rec(M_LOOKUP, ctx, parent);
        rec_name(name);
        if let Some(e) = fail() {
            return Err(e);
        }
        Ok(script().entry)
    }

    fn forget(&self, ctx: &Context, inode: u64, count: u64) {
        rec(M_FORGET, ctx, inode);
        unsafe { LOG.a[0] = count };
    }

    fn batch_forget(&self, ctx: &Context, requests: Vec<(u64, u64)>) {
        rec(M_BATCH_FORGET, ctx, 0);
        unsafe {
            LOG.npairs = requests.len();
            let mut i = 0;
            while i < requests.len() && i < 4 {
                LOG.pairs[i] = requests[i];
                i += 1;
            }
        }
        std::mem::forget(requests);
    }

    fn getattr(
        &self,
        ctx: &Context,
        inode: u64,
        handle: Option<u64>,
    ) -> io::Result<(stat64, Duration)> {
        rec(M_GETATTR, ctx, inode);
        rec_fh(handle);
        if let Some(e) = fail() {
            return Err(e);
        }
        Ok((script().st, script().dur))
    }

    fn setattr(
        &self,
        ctx: &Context,
        inode: u64,
        attr: stat64,
        handle: Option<u64>,
        valid: SetattrValid,
    ) -> io::Result<(stat64, Duration)> {
        rec(M_SETATTR, ctx, inode);
        rec_fh(handle);
        unsafe {
            LOG.st = Some(attr);
            LOG.a[0] = valid.bits() as u64;
        }
        if let Some(e) = fail() {
            return Err(e);
        }
        Ok((script().st, script().dur))
    }

    fn readlink(&self, ctx: &Context, inode: u64) -> io::Result<Vec<u8>> {
        rec(M_READLINK, ctx, inode);
        if let Some(e) = fail() {
            return Err(e);
        }
        Ok(payload_vec())
    }

    fn symlink(&self, ctx: &Context, linkname: &CStr, parent: u64, name: &CStr) -> io::Result<Entry> {
        rec(M_SYMLINK, ctx, parent);
        rec_name(name);
        rec_name2(linkname);
        if let Some(e) = fail() {
            return Err(e);
        }
        Ok(script().entry)
    }

    fn mknod(
        &self,
        ctx: &Context,
        inode: u64,
        name: &CStr,
        mode: u32,
        rdev: u32,
        umask: u32,
    ) -> io::Result<Entry> {
        rec(M_MKNOD, ctx, inode);
        rec_name(name);
        unsafe {
            LOG.a[0] = mode as u64;
            LOG.a[1] = rdev as u64;
            LOG.a[2] = umask as u64;
        }
        if let Some(e) = fail() {
            return Err(e);
        }
        Ok(script().entry)
    }

    fn mkdir(&self, ctx: &Context, parent: u64, name: &CStr, mode: u32, umask: u32) -> io::Result<Entry> {
        rec(M_MKDIR, ctx, parent);
        rec_name(name);
        unsafe {
            LOG.a[0] = mode as u64;
            LOG.a[1] = umask as u64;
        }
        if let Some(e) = fail() {
            return Err(e);
        }
        Ok(script().entry)
    }

    fn unlink(&self, ctx: &Context, parent: u64, name: &CStr) -> io::Result<()> {
        rec(M_UNLINK, ctx, parent);
        rec_name(name);
        if let Some(e) = fail() {
            return Err(e);
        }
        Ok(())
    }

    fn rmdir(&self, ctx: &Context, parent: u64, name: &CStr) -> io::Result<()> {
        rec(M_RMDIR, ctx, parent);
        rec_name(name);
        if let Some(e) = fail() {
            return Err(e);
        }
        Ok(())
    }

    fn rename(
        &self,
        ctx: &Context,
        olddir: u64,
        oldname: &CStr,
        newdir: u64,
        newname: &CStr,
        flags: u32,
    ) -> io::Result<()> {
        rec(M_RENAME, ctx, olddir);
        rec_name(oldname);
        rec_name2(newname);
        unsafe {
            LOG.ino2 = newdir;
            LOG.a[0] = flags as u64;
        }
        if let Some(e) = fail() {
            return Err(e);
        }
        Ok(())
    }

    fn link(&self, ctx: &Context, inode: u64, newparent: u64, newname: &CStr) -> io::Result<Entry> {
        rec(M_LINK, ctx, newparent);
        rec_name(newname);
        unsafe { LOG.ino2 = inode };
        if let Some(e) = fail() {
            return Err(e);
        }
        Ok(script().entry)
    }

    fn open(
        &self,
        ctx: &Context,
        inode: u64,
        flags: u32,
        fuse_flags: u32,
    ) -> io::Result<(Option<u64>, OpenOptions, Option<u32>)> {
        rec(M_OPEN, ctx, inode);
        unsafe {
            LOG.a[0] = flags as u64;
            LOG.a[1] = fuse_flags as u64;
        }
        if let Some(e) = fail() {
            return Err(e);
        }
        let s = script();
        Ok((s.handle, OpenOptions::from_bits_truncate(s.opts), s.passthrough))
    }

    fn create(
        &self,
        ctx: &Context,
        parent: u64,
        name: &CStr,
        args: CreateIn,
    ) -> io::Result<(Entry, Option<u64>, OpenOptions, Option<u32>)> {
        rec(M_CREATE, ctx, parent);
        rec_name(name);
        unsafe {
            LOG.a[0] = args.flags as u64;
            LOG.a[1] = args.mode as u64;
            LOG.a[2] = args.umask as u64;
            LOG.a[3] = args.fuse_flags as u64;
        }
        if let Some(e) = fail() {
            return Err(e);
        }
        let s = script();
        Ok((s.entry, s.handle, OpenOptions::from_bits_truncate(s.opts), s.passthrough))
    }

    fn read(
        &self,
        ctx: &Context,
        inode: u64,
        handle: u64,
        w: &mut dyn ZeroCopyWriter,
        size: u32,
        offset: u64,
        lock_owner: Option<u64>,
        flags: u32,
    ) -> io::Result<usize> {
        rec(M_READ, ctx, inode);
        rec_fh(Some(handle));
        rec_opt(lock_owner);
        unsafe {
            LOG.a[0] = size as u64;
            LOG.a[1] = offset;
            LOG.a[2] = flags as u64;
            LOG.a[3] = w.available_bytes() as u64;
        }
        if let Some(e) = fail() {
            return Err(e);
        }
        // an honest filesystem: produce the scripted bytes if the client asked for at least that
        // many and they fit, nothing otherwise, and report exactly what was produced
        let s = script();
        let n = kn_bytes_len();
        if n > 0 && (size as usize) >= n && w.available_bytes() >= n {
            let done = w.write(&kn_bytes()[..n])?;
            unsafe { LOG.a[4] = done as u64 };
            Ok(done)
        } else {
            unsafe { LOG.a[4] = 0 };
            Ok(0)
        }
    }

    fn write(
        &self,
        ctx: &Context,
        inode: u64,
        handle: u64,
        r: &mut dyn ZeroCopyReader,
        size: u32,
        offset: u64,
        lock_owner: Option<u64>,
        delayed_write: bool,
        flags: u32,
        fuse_flags: u32,
    ) -> io::Result<usize> {
        rec(M_WRITE, ctx, inode);
        rec_fh(Some(handle));
        rec_opt(lock_owner);
        unsafe {
            LOG.a[0] = size as u64;
            LOG.a[1] = offset;
            LOG.a[2] = flags as u64;
            LOG.a[3] = fuse_flags as u64;
            LOG.b[0] = delayed_write;
        }
        // read the payload the way a filesystem would (bounded by NB)
        // read whatever payload is there (up to NB bytes) the way a filesystem would
        let mut tmp = [0u8; NB];
        let got = r.read(&mut tmp)?;
        rec_data(&tmp[..got]);
        if let Some(e) = fail() {
            return Err(e);
        }
        Ok(script().count)
    }

    fn flush(&self, ctx: &Context, inode: u64, handle: u64, lock_owner: u64) -> io::Result<()> {
        rec(M_FLUSH, ctx, inode);
        rec_fh(Some(handle));
        unsafe { LOG.a[0] = lock_owner };
        if let Some(e) = fail() {
            return Err(e);
        }
        Ok(())
    }

    fn fsync(&self, ctx: &Context, inode: u64, datasync: bool, handle: u64) -> io::Result<()> {
        rec(M_FSYNC, ctx, inode);
        rec_fh(Some(handle));
        unsafe { LOG.b[0] = datasync };
        if let Some(e) = fail() {
            return Err(e);
        }
        Ok(())
    }

    fn fallocate(
        &self,
        ctx: &Context,
        inode: u64,
        handle: u64,
        mode: u32,
        offset: u64,
        length: u64,
    ) -> io::Result<()> {
        rec(M_FALLOCATE, ctx, inode);
        rec_fh(Some(handle));
        unsafe {
            LOG.a[0] = mode as u64;
            LOG.a[1] = offset;
            LOG.a[2] = length;
        }
        if let Some(e) = fail() {
            return Err(e);
        }
        Ok(())
    }

    fn release(
        &self,
        ctx: &Context,
        inode: u64,
        flags: u32,
        handle: u64,
        flush: bool,
        flock_release: bool,
        lock_owner: Option<u64>,
    ) -> io::Result<()> {
        rec(M_RELEASE, ctx, inode);
        rec_fh(Some(handle));
        rec_opt(lock_owner);
        unsafe {
            LOG.a[0] = flags as u64;
            LOG.b[0] = flush;
            LOG.b[1] = flock_release;
        }
        if let Some(e) = fail() {
            return Err(e);
        }
        Ok(())
    }

    fn statfs(&self, ctx: &Context, inode: u64) -> io::Result<statvfs64> {
        rec(M_STATFS, ctx, inode);
        if let Some(e) = fail() {
            return Err(e);
        }
        let mut st: statvfs64 = unsafe { std::mem::zeroed() };
        let s = script();
        // scripted from the generic value slots
        st.f_blocks = s.v64;
        st.f_bfree = s.entry.inode;
        st.f_bavail = s.entry.generation;
        st.f_files = s.ent_ino;
        st.f_ffree = s.ent_off;
        st.f_bsize = s.v32 as u64;
        st.f_namemax = s.opts as u64;
        st.f_frsize = s.ent_type as u64;
        Ok(st)
    }

    fn setxattr(&self, ctx: &Context, inode: u64, name: &CStr, value: &[u8], flags: u32) -> io::Result<()> {
        rec(M_SETXATTR, ctx, inode);
        rec_name(name);
        rec_data(value);
        unsafe { LOG.a[0] = flags as u64 };
        if let Some(e) = fail() {
            return Err(e);
        }
        Ok(())
    }

    fn getxattr(&self, ctx: &Context, inode: u64, name: &CStr, size: u32) -> io::Result<GetxattrReply> {
        rec(M_GETXATTR, ctx, inode);
        rec_name(name);
        unsafe { LOG.a[0] = size as u64 };
        if let Some(e) = fail() {
            return Err(e);
        }
        let s = script();
        if kn_reply_count() {
            Ok(GetxattrReply::Count(s.v32))
        } else {
            Ok(GetxattrReply::Value(payload_vec()))
        }
    }

    fn listxattr(&self, ctx: &Context, inode: u64, size: u32) -> io::Result<ListxattrReply> {
        rec(M_LISTXATTR, ctx, inode);
        unsafe { LOG.a[0] = size as u64 };
        if let Some(e) = fail() {
            return Err(e);
        }
        let s = script();
        if kn_reply_count() {
            Ok(ListxattrReply::Count(s.v32))
        } else {
            Ok(ListxattrReply::Names(payload_vec()))
        }
    }

    fn removexattr(&self, ctx: &Context, inode: u64, name: &CStr) -> io::Result<()> {
        rec(M_REMOVEXATTR, ctx, inode);
        rec_name(name);
        if let Some(e) = fail() {
            return Err(e);
        }
        Ok(())
    }

    fn opendir(&self, ctx: &Context, inode: u64, flags: u32) -> io::Result<(Option<u64>, OpenOptions)> {
        rec(M_OPENDIR, ctx, inode);
        unsafe { LOG.a[0] = flags as u64 };
        if let Some(e) = fail() {
            return Err(e);
        }
        let s = script();
        Ok((s.handle, OpenOptions::from_bits_truncate(s.opts)))
    }

    fn readdir(
        &self,
        ctx: &Context,
        inode: u64,
        handle: u64,
        size: u32,
        offset: u64,
        add_entry: &mut dyn FnMut(DirEntry) -> io::Result<usize>,
    ) -> io::Result<()> {
        rec(M_READDIR, ctx, inode);
        rec_fh(Some(handle));
        unsafe {
            LOG.a[0] = size as u64;
            LOG.a[1] = offset;
        }
        if let Some(e) = fail() {
            return Err(e);
        }
        let s = script();
        let mut i = 0;
        let mut delivered = 0u64;
        while i < kn_nent() {
            let d = DirEntry {
                ino: s.ent_ino,
                offset: s.ent_off,
                type_: s.ent_type,
                name: &kn_bytes()[..kn_ent_namelen()],
            };
            match add_entry(d) {
                Ok(0) => break,
                Ok(_) => delivered += 1,
                Err(e) => return Err(e),
            }
            i += 1;
        }
        unsafe { LOG.a[2] = delivered };
        Ok(())
    }

    fn readdirplus(
        &self,
        ctx: &Context,
        inode: u64,
        handle: u64,
        size: u32,
        offset: u64,
        add_entry: &mut dyn FnMut(DirEntry, Entry) -> io::Result<usize>,
    ) -> io::Result<()> {
        rec(M_READDIRPLUS, ctx, inode);
        rec_fh(Some(handle));
        unsafe {
            LOG.a[0] = size as u64;
            LOG.a[1] = offset;
        }
        if let Some(e) = fail() {
            return Err(e);
        }
        let s = script();
        let mut i = 0;
        let mut delivered = 0u64;
        while i < kn_nent() {
            let d = DirEntry {
                ino: s.ent_ino,
                offset: s.ent_off,
                type_: s.ent_type,
                name: &kn_bytes()[..kn_ent_namelen()],
            };
            match add_entry(d, s.entry) {
                Ok(0) => break,
                Ok(_) => delivered += 1,
                Err(e) => return Err(e),
            }
            i += 1;
        }
        unsafe { LOG.a[2] = delivered };
        Ok(())
    }

    fn fsyncdir(&self, ctx: &Context, inode: u64, datasync: bool, handle: u64) -> io::Result<()> {
        rec(M_FSYNCDIR, ctx, inode);
        rec_fh(Some(handle));
        unsafe { LOG.b[0] = datasync };
        if let Some(e) = fail() {
            return Err(e);
        }
        Ok(())
    }

    fn releasedir(&self, ctx: &Context, inode: u64, flags: u32, handle: u64) -> io::Result<()> {
        rec(M_RELEASEDIR, ctx, inode);
        rec_fh(Some(handle));
        unsafe { LOG.a[0] = flags as u64 };
        if let Some(e) = fail() {
            return Err(e);
        }
        Ok(())
    }

    fn access(&self, ctx: &Context, inode: u64, mask: u32) -> io::Result<()> {
        rec(M_ACCESS, ctx, inode);
        unsafe { LOG.a[0] = mask as u64 };
        if let Some(e) = fail() {
            return Err(e);
        }
        Ok(())
    }

    fn lseek(&self, ctx: &Context, inode: u64, handle: u64, offset: u64, whence: u32) -> io::Result<u64> {
        rec(M_LSEEK, ctx, inode);
        rec_fh(Some(handle));
        unsafe {
            LOG.a[0] = offset;
            LOG.a[1] = whence as u64;
        }
        if let Some(e) = fail() {
            return Err(e);
        }
        Ok(script().v64)
    }

    fn getlk(
        &self,
        ctx: &Context,
        inode: u64,
        handle: u64,
        owner: u64,
        lock: FsFileLock,
        flags: u32,
    ) -> io::Result<FsFileLock> {
        rec(M_GETLK, ctx, inode);
        rec_fh(Some(handle));
        unsafe {
            LOG.a[0] = owner;
            LOG.a[1] = lock.start;
            LOG.a[2] = lock.end;
            LOG.a[3] = lock.lock_type as u64;
            LOG.a[4] = lock.pid as u64;
            LOG.a[5] = flags as u64;
        }
        if let Some(e) = fail() {
            return Err(e);
        }
        Ok(script().lock)
    }

    fn setlk(
        &self,
        ctx: &Context,
        inode: u64,
        handle: u64,
        owner: u64,
        lock: FsFileLock,
        flags: u32,
    ) -> io::Result<()> {
        rec(M_SETLK, ctx, inode);
        rec_fh(Some(handle));
        unsafe {
            LOG.a[0] = owner;
            LOG.a[1] = lock.start;
            LOG.a[2] = lock.end;
            LOG.a[3] = lock.lock_type as u64;
            LOG.a[4] = lock.pid as u64;
            LOG.a[5] = flags as u64;
        }
        if let Some(e) = fail() {
            return Err(e);
        }
        Ok(())
    }

    fn setlkw(
        &self,
        ctx: &Context,
        inode: u64,
        handle: u64,
        owner: u64,
        lock: FsFileLock,
        flags: u32,
    ) -> io::Result<()> {
        rec(M_SETLKW, ctx, inode);
        rec_fh(Some(handle));
        unsafe {
            LOG.a[0] = owner;
            LOG.a[1] = lock.start;
            LOG.a[2] = lock.end;
            LOG.a[3] = lock.lock_type as u64;
            LOG.a[4] = lock.pid as u64;
            LOG.a[5] = flags as u64;
        }
        if let Some(e) = fail() {
            return Err(e);
        }
        Ok(())
    }

    fn ioctl(
        &self,
        ctx: &Context,
        inode: u64,
        handle: u64,
        flags: u32,
        cmd: u32,
        data: IoctlData,
        out_size: u32,
    ) -> io::Result<IoctlData<'_>> {
        rec(M_IOCTL, ctx, inode);
        rec_fh(Some(handle));
        unsafe {
            LOG.a[0] = flags as u64;
            LOG.a[1] = cmd as u64;
            LOG.a[2] = out_size as u64;
            LOG.a[3] = data.result as u64;
        }
        match data.data {
            Some(d) => {
                rec_data(d);
                unsafe { LOG.b[0] = true };
            }
            None => unsafe { LOG.b[0] = false },
        }
        if let Some(e) = fail() {
            return Err(e);
        }
        let s = script();
        Ok(IoctlData {
            result: s.ioctl_result,
            data: if kn_reply_count() {
                None
            } else {
                Some(&kn_bytes()[..kn_bytes_len()])
            },
        })
    }

    fn bmap(&self, ctx: &Context, inode: u64, block: u64, blocksize: u32) -> io::Result<u64> {
        rec(M_BMAP, ctx, inode);
        unsafe {
            LOG.a[0] = block;
            LOG.a[1] = blocksize as u64;
        }
        if let Some(e) = fail() {
            return Err(e);
        }
        Ok(script().v64)
    }

    fn poll(
        &self,
        ctx: &Context,
        inode: u64,
        handle: u64,
        khandle: u64,
        flags: u32,
        events: u32,
    ) -> io::Result<u32> {
        rec(M_POLL, ctx, inode);
        rec_fh(Some(handle));
        unsafe {
            LOG.a[0] = khandle;
            LOG.a[1] = flags as u64;
            LOG.a[2] = events as u64;
        }
        if let Some(e) = fail() {
            return Err(e);
        }
        Ok(script().v32)
    }

    fn notify_reply(&self) -> io::Result<()> {
        unsafe {
            LOG.calls += 1;
            LOG.method = M_NOTIFY_REPLY;
        }
        if let Some(e) = fail() {
            return Err(e);
        }
        Ok(())
    }

    fn id_remap(&self, _ctx: &mut Context) -> io::Result<()> {
        // must never be called directly by the server (it calls id_remap_with_nodeid)
        unsafe { LOG.remaps += 100 };
        Ok(())
    }

    fn id_remap_with_nodeid(&self, _ctx: &mut Context, nodeid: u64) -> io::Result<()> {
        unsafe {
            LOG.remaps += 1;
            LOG.remap_nodeid = nodeid;
        }
        if script().remap_fails {
            return Err(io::Error::from_raw_os_error(libc::EINVAL));
        }
        Ok(())
    }
}

// ---------------------------------------------------------------- request construction / reply decoding
pub fn put32(b: &mut [u8], off: usize, v: u32) {
    let x = v.to_le_bytes();
    b[off] = x[0];
    b[off + 1] = x[1];
    b[off + 2] = x[2];
    b[off + 3] = x[3];
}
pub fn put64(b: &mut [u8], off: usize, v: u64) {
    put32(b, off, v as u32);
    put32(b, off + 4, (v >> 32) as u32);
}
pub fn get16(b: &[u8], off: usize) -> u16 {
    u16::from_le_bytes([b[off], b[off + 1]])
}
pub fn get32(b: &[u8], off: usize) -> u32 {
    u32::from_le_bytes([b[off], b[off + 1], b[off + 2], b[off + 3]])
}
pub fn get64(b: &[u8], off: usize) -> u64 {
    (get32(b, off) as u64) | ((get32(b, off + 4) as u64) << 32)
}

/// kernel layout of fuse_in_header (checked against linux/fuse.h by C13)
pub const IH_LEN: usize = 0;
pub const IH_OPCODE: usize = 4;
pub const IH_UNIQUE: usize = 8;
pub const IH_NODEID: usize = 16;
pub const IH_UID: usize = 24;
pub const IH_GID: usize = 28;
pub const IH_PID: usize = 32;
pub const IH_SIZE: usize = 40;
pub const OH_SIZE: usize = 16;

pub fn reset_log() {
    unsafe {
        LOG.calls = 0;
        LOG.remaps = 0;
        LOG.method = M_NONE;
        LOG.name_len = 0;
        LOG.name2_len = 0;
        LOG.data_len = 0;
        LOG.npairs = 0;
        LOG.has_fh = false;
        LOG.has_opt = false;
        LOG.st = None;
    }
}

/// Run one request through the real `Server::handle_message` (Server<Arc<SymFs>>: the Arc
/// forwarding impl is on the path).  `req`/`cap` are concrete-length buffers.
pub fn handle(server: &Server<Arc<SymFs>>, req: &mut [u8], wbuf: &mut [u8]) -> crate::Result<usize> {
    let r = Reader::<()>::from_fuse_buffer(FuseBuf::new(req)).unwrap();
    let w = FuseDevWriter::<()>::new(7, wbuf).unwrap();
    server.handle_message(r, w.into(), None, None)
}

/// C01 generic post-condition on the ghost device.
pub fn check_reply_stream(unique: u64) {
    unsafe {
        assert!(ghost::DEV.events <= 1, "[C01] at most one reply emission per request");
        if ghost::DEV.events == 1 && ghost::DEV.failed == 0 {
            let n = ghost::DEV.len;
            assert!(n >= OH_SIZE, "[C01] a reply carries at least an out header");
            assert!(n <= ghost::CAP, "harness: ghost capacity");
            let b = &ghost::DEV.bytes;
            assert!(get32(b, 0) as usize == n, "[C01] reply length field equals bytes emitted");
            assert!(get64(b, 8) == unique, "[C01] reply unique equals request unique");
            let e = get32(b, 4) as i32;
            assert!(e <= 0 && e >= -4095, "[C01] reply error is zero or a negated errno");
        }
    }
}

pub fn emitted() -> bool {
    unsafe { ghost::DEV.events == 1 && ghost::DEV.failed == 0 }
}
pub fn reply_error() -> i32 {
    unsafe { get32(&ghost::DEV.bytes, 4) as i32 }
}
pub fn reply_len() -> usize {
    unsafe { ghost::DEV.len }
}
pub fn reply() -> &'static [u8; ghost::CAP] {
    unsafe { &ghost::DEV.bytes }
}

pub fn new_server() -> Server<Arc<SymFs>> {
    Server::new(Arc::new(SymFs))
}

/// fill the in-header fields that every harness keeps symbolic; returns (unique, nodeid, uid, gid, pid)
pub fn sym_header(req: &mut [u8], opcode: u32, len: u32) -> (u64, u64, u32, u32, u32) {
    let unique: u64 = kani::any();
    let nodeid: u64 = kani::any();
    let uid: u32 = kani::any();
    let gid: u32 = kani::any();
    let pid: u32 = kani::any();
    put32(req, IH_LEN, len);
    put32(req, IH_OPCODE, opcode);
    put64(req, IH_UNIQUE, unique);
    put64(req, IH_NODEID, nodeid);
    put32(req, IH_UID, uid);
    put32(req, IH_GID, gid);
    put32(req, IH_PID, pid);
    put32(req, 36, kani::any());
    (unique, nodeid, uid, gid, pid)
}

/// C02: context and node id as the client encoded them, exactly one operation call, and the
/// per-request id translation called exactly once with the request's node id.
pub fn check_ctx(method: u32, nodeid: u64, uid: u32, gid: u32, pid: u32) {
    unsafe {
        assert!(LOG.calls == 1, "[C02] exactly one filesystem operation per request");
        assert!(LOG.method == method, "[C02] the operation the opcode denotes");
        assert!(LOG.ino == nodeid, "[C02] node id as encoded");
        assert!(LOG.uid == uid && LOG.gid == gid && LOG.pid == pid as i32, "[C02] caller ids as encoded");
        assert!(LOG.remaps == 1 && LOG.remap_nodeid == nodeid, "[C02] one id translation with the request node id");
    }
}

/// kernel layout of fuse_attr (offsets from the C oracle) inside a reply at `base` vs a stat64 (C03)
pub fn check_attr(b: &[u8], base: usize, st: &stat64, flags: u32) {
    assert!(get64(b, base + K_ATTR__INO) == st.st_ino, "[C03] attr.ino");
    assert!(get64(b, base + K_ATTR__SIZE) == st.st_size as u64, "[C03] attr.size");
    assert!(get64(b, base + K_ATTR__BLOCKS) == st.st_blocks as u64, "[C03] attr.blocks");
    assert!(get64(b, base + K_ATTR__ATIME) == st.st_atime as u64, "[C03] attr.atime");
    assert!(get64(b, base + K_ATTR__MTIME) == st.st_mtime as u64, "[C03] attr.mtime");
    assert!(get64(b, base + K_ATTR__CTIME) == st.st_ctime as u64, "[C03] attr.ctime");
    assert!(get32(b, base + K_ATTR__ATIMENSEC) == st.st_atime_nsec as u32, "[C03] attr.atimensec");
    assert!(get32(b, base + K_ATTR__MTIMENSEC) == st.st_mtime_nsec as u32, "[C03] attr.mtimensec");
    assert!(get32(b, base + K_ATTR__CTIMENSEC) == st.st_ctime_nsec as u32, "[C03] attr.ctimensec");
    assert!(get32(b, base + K_ATTR__MODE) == st.st_mode, "[C03] attr.mode");
    assert!(get32(b, base + K_ATTR__NLINK) == st.st_nlink as u32, "[C03] attr.nlink");
    assert!(get32(b, base + K_ATTR__UID) == st.st_uid, "[C03] attr.uid");
    assert!(get32(b, base + K_ATTR__GID) == st.st_gid, "[C03] attr.gid");
    assert!(get32(b, base + K_ATTR__RDEV) == st.st_rdev as u32, "[C03] attr.rdev");
    assert!(get32(b, base + K_ATTR__BLKSIZE) == st.st_blksize as u32, "[C03] attr.blksize");
    assert!(get32(b, base + K_ATTR__FLAGS) == flags, "[C03] attr.flags carries the entry's attribute flags");
}

/// kernel layout of fuse_entry_out at `base` vs an Entry (C03)
pub fn check_entry(b: &[u8], base: usize, e: &Entry) {
    assert!(get64(b, base + K_ENTRY_OUT__NODEID) == e.inode, "[C03] entry.nodeid");
    assert!(get64(b, base + K_ENTRY_OUT__GENERATION) == e.generation, "[C03] entry.generation");
    assert!(get64(b, base + K_ENTRY_OUT__ENTRY_VALID) == e.entry_timeout.as_secs(), "[C03] entry.entry_valid");
    assert!(get64(b, base + K_ENTRY_OUT__ATTR_VALID) == e.attr_timeout.as_secs(), "[C03] entry.attr_valid");
    assert!(get32(b, base + K_ENTRY_OUT__ENTRY_VALID_NSEC) == e.entry_timeout.subsec_nanos(), "[C03] entry.entry_valid_nsec");
    assert!(get32(b, base + K_ENTRY_OUT__ATTR_VALID_NSEC) == e.attr_timeout.subsec_nanos(), "[C03] entry.attr_valid_nsec");
    check_attr(b, base + K_ENTRY_OUT__ATTR_INO, &e.attr, e.attr_flags);
}

// ---------------------------------------------------------------- direct handler driver
pub type Srv = Server<Arc<SymFs>>;
pub type Ctx<'a> = SrvContext<'a, Arc<SymFs>, ()>;

/// arbitrary in-header as the handlers see it (already decoded by handle_message)
pub fn any_hdr(opcode: u32) -> InHeader {
    InHeader {
        len: kani::any(),
        opcode,
        unique: kani::any(),
        nodeid: kani::any(),
        uid: kani::any(),
        gid: kani::any(),
        pid: kani::any(),
        padding: kani::any(),
    }
}

/// fully symbolic filesystem answer
pub fn any_script() -> Script {
    let mut sc = default_script();
    sc.err = if kani::any() { 0 } else { any_err_code(true) };
    sc.entry = any_entry();
    sc.st = any_stat();
    sc.dur = any_duration();
    sc.handle = if kani::any() { Some(kani::any()) } else { None };
    sc.opts = kani::any();
    sc.passthrough = if kani::any() { Some(kani::any()) } else { None };
    sc.v64 = kani::any();
    sc.v32 = kani::any();
    sc.lock = FsFileLock { start: kani::any(), end: kani::any(), lock_type: kani::any(), pid: kani::any() };
    sc.ent_ino = kani::any();
    sc.ent_off = kani::any();
    sc.ent_type = kani::any();
    sc.ioctl_result = kani::any();
    sc
}

/// p: 1 = C01 assertions, 2 = C02, 3 = C03.  C02 scripts a plain success so that only the
/// request decoding is under test; C01/C03 script an arbitrary answer.
pub fn script_for(p: u8) -> Script {
    if p == 2 {
        default_script()
    } else {
        any_script()
    }
}

/// Run one handler of the real server on (hdr, body) with a reply buffer `wbuf`.
pub fn drive<F>(hdr: InHeader, body: &mut [u8], wbuf: &mut [u8], dev_refuses: bool, script: Script, f: F) -> crate::Result<usize>
where
    F: FnOnce(&Srv, Ctx<'_>) -> crate::Result<usize>,
{
    set_script(script);
    reset_log();
    ghost::reset(dev_refuses);
    let server = new_server();
    let r = Reader::<()>::from_fuse_buffer(FuseBuf::new(body)).unwrap();
    let w = FuseDevWriter::<()>::new(7, wbuf).unwrap();
    let ctx = SrvContext::<Arc<SymFs>, ()>::new(hdr, r, w.into());
    let res = f(&server, ctx);
    std::mem::forget(server);
    res
}

pub fn sc() -> &'static Script {
    unsafe { SCRIPT.as_ref().unwrap() }
}

pub fn calls() -> u32 {
    unsafe { LOG.calls }
}

/// C02 for the direct handler harnesses: one operation call, the right one, node id and caller
/// ids as encoded (the id translation is done by handle_message and checked in the dispatcher
/// harnesses).
pub fn check_call(method: u32, hdr: &InHeader) {
    unsafe {
        assert!(LOG.calls == 1, "[C02] exactly one filesystem operation per request");
        assert!(LOG.method == method, "[C02] the operation the opcode denotes is the one invoked");
        assert!(LOG.ino == hdr.nodeid, "[C02] node id as encoded");
        assert!(LOG.uid == hdr.uid && LOG.gid == hdr.gid && LOG.pid == hdr.pid as i32, "[C02] caller ids as encoded");
        assert!(LOG.remaps == 0, "[C02] no other filesystem operation");
    }
}

/// C03: generic shape of the reply to a scripted answer: error -> bare header with -errno,
/// success -> header + `body_len` bytes, error 0.  Returns true if a success body is present.
pub fn check_reply_shape(body_len: usize) -> bool {
    let s = sc();
    if !emitted() {
        return false;
    }
    if s.err != 0 {
        assert!(reply_error() == -expected_errno(s.err), "[C03] an error is sent as its negated errno");
        assert!(reply_len() == K_OUT_HEADER_SIZE, "[C03] an error reply is a bare header");
        false
    } else {
        assert!(reply_error() == 0, "[C03] success is sent with error 0");
        assert!(reply_len() == K_OUT_HEADER_SIZE + body_len, "[C03] success reply has the size of the opcode's reply structure");
        true
    }
}

/// C01: post-conditions every handler run must satisfy.
/// `wellformed`: the request is complete; `wants_reply`: protocol requires an answer;
/// `room`: the reply buffer can hold the largest possible answer of this opcode.
pub fn check_c01(hdr: &InHeader, res: &crate::Result<usize>, wellformed: bool, wants_reply: bool, room: bool, dev_refuses: bool) {
    check_reply_stream(hdr.unique);
    unsafe {
        if !wants_reply {
            assert!(ghost::DEV.events == 0, "[C01] no reply is ever produced for this opcode");
        }
        if wellformed && wants_reply && room {
            assert!(ghost::DEV.events == 1, "[C01] a well-formed request that requires an answer gets exactly one reply");
            if !dev_refuses {
                assert!(res.is_ok(), "[C01] handler reports success after replying");
            }
        }
        if dev_refuses && ghost::DEV.events == 1 {
            assert!(res.is_err(), "[C01] a refused device write is reported to the caller");
        }
    }
}

// ---------------------------------------------------------------- async twin of the scripted filesystem (C20)
#[cfg(feature = "async-io")]
mod async_fs {
    use super::*;
    use crate::api::filesystem::{AsyncFileSystem, AsyncZeroCopyReader, AsyncZeroCopyWriter};
    use async_trait::async_trait;

    /// Every async operation answers and records exactly like its synchronous twin (same SCRIPT,
    /// same LOG), so any difference observed by the C20 harnesses comes from the server.
    #[async_trait]
    impl AsyncFileSystem for SymFs {
        async fn async_lookup(&self, ctx: &Context, parent: u64, name: &CStr) -> io::Result<Entry> {
            self.lookup(ctx, parent, name)
        }
        async fn async_getattr(&self, ctx: &Context, inode: u64, handle: Option<u64>) -> io::Result<(stat64, Duration)> {
            self.getattr(ctx, inode, handle)
        }
        async fn async_setattr(&self, ctx: &Context, inode: u64, attr: stat64, handle: Option<u64>, valid: SetattrValid) -> io::Result<(stat64, Duration)> {
            self.setattr(ctx, inode, attr, handle, valid)
        }
        async fn async_open(&self, ctx: &Context, inode: u64, flags: u32, fuse_flags: u32) -> io::Result<(Option<u64>, OpenOptions)> {
            self.open(ctx, inode, flags, fuse_flags).map(|(h, o, _)| (h, o))
        }
        async fn async_create(&self, ctx: &Context, parent: u64, name: &CStr, args: CreateIn) -> io::Result<(Entry, Option<u64>, OpenOptions)> {
            self.create(ctx, parent, name, args).map(|(e, h, o, _)| (e, h, o))
        }
        async fn async_read(
            &self,
            ctx: &Context,
            inode: u64,
            handle: u64,
            w: &mut (dyn AsyncZeroCopyWriter + Send),
            size: u32,
            offset: u64,
            lock_owner: Option<u64>,
            flags: u32,
        ) -> io::Result<usize> {
            rec(M_READ, ctx, inode);
            rec_fh(Some(handle));
            rec_opt(lock_owner);
            unsafe {
                LOG.a[0] = size as u64;
                LOG.a[1] = offset;
                LOG.a[2] = flags as u64;
                LOG.a[3] = w.available_bytes() as u64;
            }
            if let Some(e) = fail() {
                return Err(e);
            }
            let n = kn_bytes_len();
            if n > 0 && (size as usize) >= n && w.available_bytes() >= n {
                let done = w.write(&kn_bytes()[..n])?;
                unsafe { LOG.a[4] = done as u64 };
                Ok(done)
            } else {
                unsafe { LOG.a[4] = 0 };
                Ok(0)
            }
        }
        async fn async_write(
            &self,
            ctx: &Context,
            inode: u64,
            handle: u64,
            r: &mut (dyn AsyncZeroCopyReader + Send),
            size: u32,
            offset: u64,
            lock_owner: Option<u64>,
            delayed_write: bool,
            flags: u32,
            fuse_flags: u32,
        ) -> io::Result<usize> {
            rec(M_WRITE, ctx, inode);
            rec_fh(Some(handle));
            rec_opt(lock_owner);
            unsafe {
                LOG.a[0] = size as u64;
                LOG.a[1] = offset;
                LOG.a[2] = flags as u64;
                LOG.a[3] = fuse_flags as u64;
                LOG.b[0] = delayed_write;
            }
            let mut tmp = [0u8; NB];
            let got = r.read(&mut tmp)?;
            rec_data(&tmp[..got]);
            if let Some(e) = fail() {
                return Err(e);
            }
            Ok(script().count)
        }
        async fn async_fsync(&self, ctx: &Context, inode: u64, datasync: bool, handle: u64) -> io::Result<()> {
            self.fsync(ctx, inode, datasync, handle)
        }
        async fn async_fallocate(&self, ctx: &Context, inode: u64, handle: u64, mode: u32, offset: u64, length: u64) -> io::Result<()> {
            self.fallocate(ctx, inode, handle, mode, offset, length)
        }
        async fn async_fsyncdir(&self, ctx: &Context, inode: u64, datasync: bool, handle: u64) -> io::Result<()> {
            self.fsyncdir(ctx, inode, datasync, handle)
        }
    }
}
