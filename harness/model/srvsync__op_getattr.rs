// GETATTR through the real Server::handle_message (model transport).
#![allow(unused_imports, static_mut_refs)]
use super::verif_support::*;
use super::*;
use crate::transport::ghost;

const OP: u32 = 3;
const S: usize = 16; // sizeof(fuse_getattr_in)

/// everything symbolic: header (except opcode), body, filesystem result; exact-length request.
#[kani::proof]
#[kani::unwind(20)]
#[kani::stub(std::rt::thread_cleanup, noop)]
#[kani::stub(std::fmt::format, empty_string)]
fn op_getattr_full() {
    let mut req = [0u8; IH_SIZE + S];
    let len: u32 = kani::any();
    let (unique, nodeid, uid, gid, pid) = sym_header(&mut req, OP, len);
    let flags: u32 = kani::any();
    let dummy: u32 = kani::any();
    let fh: u64 = kani::any();
    put32(&mut req, IH_SIZE, flags);
    put32(&mut req, IH_SIZE + 4, dummy);
    put64(&mut req, IH_SIZE + 8, fh);

    let mut sc = default_script();
    sc.err = if kani::any() { 0 } else { any_err_code(true) };
    sc.st = any_stat();
    sc.dur = any_duration();
    unsafe { SCRIPT = Some(sc) };
    reset_log();
    ghost::reset(true);

    let server = new_server();
    let mut wbuf = [0u8; 128];
    let res = handle(&server, &mut req, &mut wbuf);

    check_reply_stream(unique);
    let oversize = len > (1u32 << 20) + 0x1000;
    let sc = unsafe { SCRIPT.as_ref().unwrap() };
    if oversize {
        unsafe { assert!(LOG.calls == 0, "[C01] oversize request does not reach the filesystem") };
        if emitted() {
            assert!(reply_error() == -libc::ENOMEM, "[C01] oversize answered ENOMEM");
        }
    } else {
        // C02
        check_ctx(M_GETATTR, nodeid, uid, gid, pid);
        unsafe {
            assert!(LOG.has_fh == (flags & 1 != 0), "[C02] handle present iff GETATTR_FH");
            if LOG.has_fh {
                assert!(LOG.fh == fh, "[C02] handle as encoded");
            }
        }
        // C01: a well-formed request gets exactly one reply (unless the device refused it)
        unsafe { assert!(ghost::DEV.events == 1, "[C01] well-formed request gets exactly one reply") };
        if emitted() {
            let b = reply();
            if sc.err == 0 {
                assert!(reply_error() == 0, "[C03] success sent as error 0");
                assert!(reply_len() == 16 + 104, "[C03] attr reply size");
                assert!(get64(b, 16) == sc.dur.as_secs(), "[C03] attr_valid");
                assert!(get32(b, 24) == sc.dur.subsec_nanos(), "[C03] attr_valid_nsec");
                check_attr(b, 32, &sc.st, 0);
                assert!(res.is_ok(), "[C01] handler reports success");
            } else {
                assert!(reply_error() == -expected_errno(sc.err), "[C03] error sent as negated errno");
                assert!(reply_len() == 16, "[C03] error reply is a bare header");
            }
        }
    }
    kani::cover!(emitted() && reply_error() == 0, "ok reply");
    kani::cover!(emitted() && reply_error() < 0, "error reply");
    kani::cover!(oversize, "oversize");
    kani::cover!(unsafe { ghost::DEV.failed } > 0, "device refused");
    std::mem::forget(server);
}
