// Opcode handlers that move data: READ, WRITE, READDIR, READDIRPLUS, IOCTL, BATCH_FORGET.
#![allow(unused_imports, static_mut_refs, clippy::all)]
use super::verif_support::*;
use super::*;
use crate::transport::{ghost, FuseDevWriter, Writer};
use crate::api::filesystem::{DirEntry, Entry};

fn log() -> &'static Log {
    unsafe { &LOG }
}

macro_rules! h {
    ($name:ident, $body:expr) => {
        #[kani::proof]
        #[kani::unwind(30)]
        #[kani::stub(std::rt::thread_cleanup, noop)]
        #[kani::stub(std::fmt::format, empty_string)]
        pub fn $name() {
            $body
        }
    };
}

// ---------------------------------------------------------------- READ
/// N bytes present after the in-header, W reply capacity, PL bytes the filesystem produces.
pub fn read<const N: usize, const W: usize, const PL: usize>(p: u8, dev_refuses: bool) {
    let hdr = any_hdr(15);
    let mut body: [u8; N] = kani::any();
    let snap = body;
    let mut wbuf = [0u8; W];
    let mut script = script_for(p);
    script.bytes_len = PL;
    script.bytes = kani::any();
    let res = drive(hdr, &mut body, &mut wbuf, dev_refuses, script, |s, c| s.read(c));
    let wellformed = N >= K_READ_IN_SIZE;
    let room = W >= 16 + PL;
    if p == 1 {
        check_c01(&hdr, &res, wellformed, true, room, dev_refuses);
        if !wellformed {
            assert!(calls() == 0 && res.is_err(), "[C01] truncated READ never reaches the filesystem");
        }
        if W < 16 {
            assert!(calls() == 0, "[C01] READ without room for a header never reaches the filesystem");
        }
    }
    if p == 2 && wellformed && W >= 16 {
        check_call(M_READ, &hdr);
        let l = log();
        assert!(l.fh == get64(&snap, K_READ_IN__FH), "[C02] READ handle");
        assert!(l.a[0] as u32 == get32(&snap, K_READ_IN__SIZE) && l.a[1] == get64(&snap, K_READ_IN__OFFSET), "[C02] READ size/offset");
        assert!(l.a[2] as u32 == get32(&snap, K_READ_IN__FLAGS), "[C02] READ flags");
        let rf = get32(&snap, K_READ_IN__READ_FLAGS);
        assert!(l.has_opt == (rf & 2 != 0), "[C02] READ lock owner present iff FUSE_READ_LOCKOWNER");
        if l.has_opt {
            assert!(l.opt == get64(&snap, K_READ_IN__LOCK_OWNER), "[C02] READ lock owner");
        }
        assert!(l.a[3] as usize == W - 16, "[C02] READ data writer offers the reply buffer minus the header");
    }
    if p == 3 && wellformed && room && !dev_refuses {
        assert!(emitted(), "[C03] the answer is sent");
        let s = sc();
        let r = reply();
        if s.err != 0 {
            assert!(reply_error() == -expected_errno(s.err) && reply_len() == 16, "[C03] READ error as negated errno, bare header");
        } else {
            let produced = log().a[4] as usize;
            assert!(reply_error() == 0 && reply_len() == 16 + produced, "[C03] READ reply carries exactly the bytes produced");
            let mut i = 0;
            while i < produced {
                assert!(r[16 + i] == kn_bytes()[i], "[C03] READ payload bytes");
                i += 1;
            }
        }
    }
    let full = wellformed && room && !dev_refuses;
    kani::cover!(!full || p == 2 || PL == 0 || (emitted() && reply_len() == 16 + PL), "payload delivered");
    kani::cover!(!full || (emitted() && reply_len() == 16 && reply_error() == 0), "empty read");
}
pub mod read_h {
    use super::*;
    h!(c01, read::<{ K_READ_IN_SIZE }, 32, 8>(1, false));
    h!(c02, read::<{ K_READ_IN_SIZE }, 32, 8>(2, false));
    h!(c03, read::<{ K_READ_IN_SIZE }, 32, 8>(3, false));
    h!(c03_len3, read::<{ K_READ_IN_SIZE }, 32, 3>(3, false));
    h!(c01_trunc, read::<{ K_READ_IN_SIZE - 1 }, 32, 8>(1, false));
    h!(c01_nospace, read::<{ K_READ_IN_SIZE }, 20, 8>(1, false));
    h!(c01_hdronly, read::<{ K_READ_IN_SIZE }, 16, 8>(1, false));
    h!(c01_tiny, read::<{ K_READ_IN_SIZE }, 15, 8>(1, false));
    h!(c01_devfail, read::<{ K_READ_IN_SIZE }, 32, 8>(1, true));
}

// ---------------------------------------------------------------- WRITE
/// PLD payload bytes follow the write_in structure.
pub fn write<const N: usize, const W: usize>(p: u8, dev_refuses: bool) {
    let hdr = any_hdr(16);
    let mut body: [u8; N] = kani::any();
    let snap = body;
    let mut wbuf = [0u8; W];
    let mut script = script_for(p);
    if p != 2 {
        let c: u32 = kani::any();
        script.count = c as usize;
    }
    let res = drive(hdr, &mut body, &mut wbuf, dev_refuses, script, |s, c| s.write(c));
    let wellformed = N >= K_WRITE_IN_SIZE;
    let room = W >= 16 + K_WRITE_OUT_SIZE;
    if p == 1 {
        check_c01(&hdr, &res, wellformed, true, room, dev_refuses);
        if !wellformed {
            assert!(calls() == 0 && res.is_err(), "[C01] truncated WRITE never reaches the filesystem");
        }
    }
    if p == 2 && wellformed {
        check_call(M_WRITE, &hdr);
        let l = log();
        let wf = get32(&snap, K_WRITE_IN__WRITE_FLAGS);
        assert!(l.fh == get64(&snap, K_WRITE_IN__FH), "[C02] WRITE handle");
        assert!(l.a[0] as u32 == get32(&snap, K_WRITE_IN__SIZE) && l.a[1] == get64(&snap, K_WRITE_IN__OFFSET), "[C02] WRITE size/offset");
        assert!(l.a[2] as u32 == get32(&snap, K_WRITE_IN__FLAGS) && l.a[3] as u32 == wf, "[C02] WRITE flags / write flags");
        assert!(l.b[0] == (wf & 1 != 0), "[C02] WRITE delayed write iff FUSE_WRITE_CACHE");
        assert!(l.has_opt == (wf & 2 != 0), "[C02] WRITE lock owner present iff FUSE_WRITE_LOCKOWNER");
        if l.has_opt {
            assert!(l.opt == get64(&snap, K_WRITE_IN__LOCK_OWNER), "[C02] WRITE lock owner");
        }
        // payload as the filesystem reads it through the zero-copy reader
        let pld = N - K_WRITE_IN_SIZE;
        assert!(l.data_len == if pld < NB { pld } else { NB }, "[C02] WRITE payload length offered to the filesystem");
        let mut i = 0;
        while i < l.data_len {
            assert!(l.data[i] == snap[K_WRITE_IN_SIZE + i], "[C02] WRITE payload bytes in order");
            i += 1;
        }
    }
    if p == 3 && wellformed && room && !dev_refuses {
        assert!(emitted(), "[C03] the answer is sent");
        if check_reply_shape(K_WRITE_OUT_SIZE) {
            assert!(get32(reply(), 16 + K_WRITE_OUT__SIZE) as usize == sc().count, "[C03] write_out.size is the count returned");
            assert!(get32(reply(), 16 + K_WRITE_OUT__PADDING) == 0, "[C03] write_out.padding zero");
        }
    }
    let full = wellformed && room && !dev_refuses;
    kani::cover!(!full || (emitted() && reply_error() == 0), "success reply");
    kani::cover!(!wellformed || p != 2 || N == K_WRITE_IN_SIZE || log().data_len > 0, "payload seen");
}
pub mod write_h {
    use super::*;
    h!(c01, write::<{ K_WRITE_IN_SIZE + 8 }, 32>(1, false));
    h!(c02, write::<{ K_WRITE_IN_SIZE + 8 }, 32>(2, false));
    h!(c02_nopayload, write::<{ K_WRITE_IN_SIZE }, 32>(2, false));
    h!(c02_p3, write::<{ K_WRITE_IN_SIZE + 3 }, 32>(2, false));
    h!(c03, write::<{ K_WRITE_IN_SIZE + 8 }, 32>(3, false));
    h!(c01_trunc, write::<{ K_WRITE_IN_SIZE - 1 }, 32>(1, false));
    h!(c01_nospace, write::<{ K_WRITE_IN_SIZE + 8 }, 23>(1, false));
    h!(c01_tiny, write::<{ K_WRITE_IN_SIZE + 8 }, 15>(1, false));
    h!(c01_devfail, write::<{ K_WRITE_IN_SIZE + 8 }, 32>(1, true));
}

// ---------------------------------------------------------------- READDIR / READDIRPLUS
/// NENT entries offered, each with a name of NL bytes (symbolic content), ino/off/type symbolic.
pub fn readdir<const W: usize, const NENT: usize, const NL: usize, const SZ: u32>(p: u8, plus: bool, dev_refuses: bool, trunc: bool) {
    let hdr = any_hdr(if plus { 44 } else { 28 });
    let mut body: [u8; K_READ_IN_SIZE] = kani::any();
    // the requested size is concrete per instance (u32::MAX = leave it symbolic): a symbolic size
    // makes the cursor position symbolic after the first entry (6.5M symex steps, measured); the
    // size arithmetic of add_dirent is checked for ALL sizes by the `dirent_step` harnesses
    if SZ != u32::MAX {
        put32(&mut body, K_READ_IN__SIZE, SZ);
    }
    let snap = body;
    let mut wbuf = [0u8; W];
    // entries are combined with a success answer, the error answer with an empty listing
    // (symbolic error x symbolic number of delivered entries: 6.5M symex steps, measured)
    let mut script = if NENT > 0 { default_script() } else { script_for(p) };
    if NENT > 0 && p != 2 {
        script.entry = any_entry_nanos(999_999_999, 1);
    }
    script.nent = NENT;
    script.ent_namelen = NL;
    script.bytes = kani::any();
    script.ent_ino = kani::any();
    script.ent_off = kani::any();
    script.ent_type = kani::any();
    let nb = if trunc { K_READ_IN_SIZE - 1 } else { K_READ_IN_SIZE };
    let res = drive(hdr, &mut body[..nb], &mut wbuf, dev_refuses, script, |s, c| s.do_readdir(c, plus));
    let size = get32(&snap, K_READ_IN__SIZE) as usize;
    let s = sc();
    let dirent_len = K_DIRENT_SIZE + NL;
    let padded = (dirent_len + 7) & !7;
    let total = if plus { padded + K_ENTRY_OUT_SIZE } else { padded };
    let fits_buffer = W >= size; // the handler refuses sizes the reply buffer cannot hold
    if p == 1 {
        check_reply_stream(hdr.unique);
        unsafe {
            if trunc {
                assert!(calls() == 0 && res.is_err() && ghost::DEV.events == 0, "[C01] truncated READDIR is rejected");
            } else if W >= 16 {
                assert!(ghost::DEV.events == 1, "[C01] a well-formed READDIR gets exactly one reply");
            }
            if !trunc && !fits_buffer {
                assert!(calls() == 0, "[C01] READDIR asking for more than the reply buffer never reaches the filesystem");
                if emitted() {
                    assert!(reply_error() == -libc::ENOMEM, "[C01] oversize READDIR answered ENOMEM");
                }
            }
        }
    }
    if p == 2 && !trunc && fits_buffer && W >= 16 {
        check_call(if plus { M_READDIRPLUS } else { M_READDIR }, &hdr);
        let l = log();
        assert!(l.fh == get64(&snap, K_READ_IN__FH), "[C02] READDIR handle");
        assert!(l.a[0] as u32 == get32(&snap, K_READ_IN__SIZE) && l.a[1] == get64(&snap, K_READ_IN__OFFSET), "[C02] READDIR size/offset");
    }
    if p == 3 && !trunc && fits_buffer && W >= 16 && !dev_refuses {
        assert!(emitted(), "[C03][C16] the answer is sent");
        let r = reply();
        if s.err != 0 {
            assert!(reply_error() == -expected_errno(s.err) && reply_len() == 16, "[C03][C16] READDIR error as negated errno");
        } else {
            let delivered = log().a[2] as usize;
            assert!(reply_error() == 0, "[C03][C16] READDIR success");
            assert!(reply_len() == 16 + delivered * total, "[C03][C16] directory reply holds only whole 8-byte-aligned entries");
            assert!(reply_len() - 16 <= size, "[C03][C16] directory reply never exceeds the requested size");
            // an entry is delivered iff it still fits the requested size
            let want = if total == 0 { 0 } else { size / total };
            assert!(delivered == if want < NENT { want } else { NENT }, "[C03][C16] entries are delivered while they fit");
            // constant-bound loops (NENT, NL are instance constants)
            let mut k = 0;
            while k < NENT {
                if k < delivered {
                    let mut base = 16 + k * total;
                    if plus {
                        check_entry(r, base, &s.entry);
                        base += K_ENTRY_OUT_SIZE;
                    }
                    assert!(get64(r, base + K_DIRENT__INO) == s.ent_ino && get64(r, base + K_DIRENT__OFF) == s.ent_off, "[C03][C16] dirent ino/off");
                    assert!(get32(r, base + K_DIRENT__NAMELEN) as usize == NL && get32(r, base + K_DIRENT__TYPE) == s.ent_type, "[C03][C16] dirent namelen/type");
                    let mut i = 0;
                    while i < NL {
                        assert!(r[base + K_DIRENT_SIZE + i] == kn_bytes()[i], "[C03][C16] dirent name bytes");
                        i += 1;
                    }
                    while i < padded - K_DIRENT_SIZE {
                        assert!(r[base + K_DIRENT_SIZE + i] == 0, "[C03][C16] dirent padding is zero");
                        i += 1;
                    }
                }
                k += 1;
            }
        }
    }
    // witnesses (vacuity guard): the expected number of entries was really delivered
    let expect = if SZ == u32::MAX { NENT } else { let w = if total == 0 { 0 } else { SZ as usize / total }; if w < NENT { w } else { NENT } };
    let live = !trunc && fits_buffer && W >= 16 && !dev_refuses && NENT > 0 && p != 2;
    kani::cover!(!live || (emitted() && reply_error() == 0 && reply_len() == 16 + expect * total), "expected entries delivered");
    kani::cover!(trunc || dev_refuses || W < 16 || p != 3 || NENT > 0 || (emitted() && reply_error() < 0), "error reply");
    kani::cover!(true, "end reached");
}
pub mod readdir_h {
    use super::*;
    // plain: dirent 24 + name 3 -> 32 per entry
    h!(c01, readdir::<{ 16 + 64 + 8 }, 2, 3, 64>(1, false, false, false));
    h!(c01_symsize_empty, readdir::<{ 16 + 64 + 8 }, 0, 3, { u32::MAX }>(1, false, false, false));
    h!(c02, readdir::<{ 16 + 64 + 8 }, 2, 3, { u32::MAX }>(2, false, false, false));
    h!(c03, readdir::<{ 16 + 64 + 8 }, 2, 3, 64>(3, false, false, false));
    h!(c03_sz63, readdir::<{ 16 + 64 + 8 }, 2, 3, 63>(3, false, false, false));
    h!(c03_sz31, readdir::<{ 16 + 64 + 8 }, 2, 3, 31>(3, false, false, false));
    h!(c03_sz0, readdir::<{ 16 + 64 + 8 }, 2, 3, 0>(3, false, false, false));
    h!(c03_name8, readdir::<{ 16 + 64 + 8 }, 2, 8, 72>(3, false, false, false));
    h!(c03_name1_n3, readdir::<{ 16 + 96 }, 3, 1, 96>(3, false, false, false));
    h!(c03_name0, readdir::<{ 16 + 48 }, 2, 0, 48>(3, false, false, false));
    h!(c03_empty, readdir::<{ 16 + 32 }, 0, 3, { u32::MAX }>(3, false, false, false));
    h!(c01_empty, readdir::<{ 16 + 32 }, 0, 3, { u32::MAX }>(1, false, false, false));
    h!(c01_trunc, readdir::<{ 16 + 64 + 8 }, 2, 3, 64>(1, false, false, true));
    h!(c01_oversize, readdir::<{ 16 + 64 + 8 }, 2, 3, 89>(1, false, false, false));
    h!(c01_tiny, readdir::<15, 2, 3, 8>(1, false, false, false));
    h!(c01_hdronly, readdir::<16, 2, 3, 16>(1, false, false, false));
    h!(c01_devfail, readdir::<{ 16 + 64 + 8 }, 2, 3, 64>(1, false, true, false));
}
pub mod readdirplus_h {
    use super::*;
    // plus: entry_out 128 + dirent 24 + name 3 -> 160 per entry
    h!(c01, readdir::<{ 16 + 160 + 8 }, 2, 3, 168>(1, true, false, false));
    h!(c02, readdir::<{ 16 + 160 + 8 }, 1, 3, { u32::MAX }>(2, true, false, false));
    h!(c03, readdir::<{ 16 + 160 + 8 }, 2, 3, 160>(3, true, false, false));
    h!(c03_sz159, readdir::<{ 16 + 160 + 8 }, 2, 3, 159>(3, true, false, false));
    h!(c03_two, readdir::<{ 16 + 320 }, 2, 1, 320>(3, true, false, false));
    h!(c03_empty, readdir::<{ 16 + 32 }, 0, 3, { u32::MAX }>(3, true, false, false));
    h!(c01_devfail, readdir::<{ 16 + 160 + 8 }, 1, 3, 160>(1, true, true, false));
}

// ---------------------------------------------------------------- add_dirent: one step, ALL sizes
/// From a cursor that already holds K whole entries, one more `add_dirent` with a SYMBOLIC limit
/// `max` (the client's requested size) and symbolic entry content: it returns 0 and writes nothing
/// iff the entry does not fit in `max - written`, otherwise it writes exactly one whole, 8-byte
/// aligned, zero-padded entry.  Inductive step for "no reply exceeds the requested size".
pub fn dirent_step<const K: usize, const NL: usize>(plus: bool) {
    let mut wbuf = [0u8; 16 + 3 * 160];
    let mut w = FuseDevWriter::<()>::new(7, &mut wbuf).unwrap();
    let mut cursor: Writer<'_, ()> = w.split_at(16).unwrap().into();
    ghost::reset(false);
    let name: [u8; 8] = kani::any();
    let ino: u64 = kani::any();
    let off: u64 = kani::any();
    let ty: u32 = kani::any();
    let e = any_entry_nanos(7, 999_999_999);
    let dirent_len = K_DIRENT_SIZE + NL;
    let padded = (dirent_len + 7) & !7;
    let total = if plus { padded + K_ENTRY_OUT_SIZE } else { padded };
    let mut k = 0;
    while k < K {
        let d = DirEntry { ino: 1, offset: 1, type_: 0, name: &name[..NL] };
        let r = add_dirent(&mut cursor, u32::MAX, d, if plus { Some(Entry::default()) } else { None });
        assert!(matches!(r, Ok(n) if n == total), "harness: prefill");
        k += 1;
    }
    let before = cursor.bytes_written();
    assert!(before == K * total, "harness: prefill accounting");
    let max: u32 = kani::any();
    let d = DirEntry { ino, offset: off, type_: ty, name: &name[..NL] };
    let r = add_dirent(&mut cursor, max, d, if plus { Some(e) } else { None });
    let after = cursor.bytes_written();
    let room = (max as usize).saturating_sub(before);
    match r {
        Ok(0) => {
            assert!(room < total, "[C03][C16] an entry is skipped only if it does not fit the requested size");
            assert!(after == before, "[C03][C16] a skipped entry writes nothing");
        }
        Ok(n) => {
            assert!(room >= total, "[C03][C16] an entry is written only if it fits the requested size");
            assert!(n == total && after == before + total, "[C03][C16] a written entry occupies exactly its padded length");
            assert!(after <= max as usize, "[C03][C16] the directory reply never exceeds the requested size");
            assert!(after % 8 == 0, "[C03][C16] entries are 8-byte aligned");
            // layout of the entry just written
            let b = unsafe { std::slice::from_raw_parts(wbuf.as_ptr().add(16 + before), total) };
            let mut base = 0;
            if plus {
                check_entry(b, 0, &e);
                base = K_ENTRY_OUT_SIZE;
            }
            assert!(get64(b, base + K_DIRENT__INO) == ino && get64(b, base + K_DIRENT__OFF) == off, "[C03][C16] dirent ino/off");
            assert!(get32(b, base + K_DIRENT__NAMELEN) as usize == NL && get32(b, base + K_DIRENT__TYPE) == ty, "[C03][C16] dirent namelen/type");
            let mut i = 0;
            while i < NL {
                assert!(b[base + K_DIRENT_SIZE + i] == name[i], "[C03][C16] dirent name bytes");
                i += 1;
            }
            while i < padded - K_DIRENT_SIZE {
                assert!(b[base + K_DIRENT_SIZE + i] == 0, "[C03][C16] dirent padding is zero");
                i += 1;
            }
        }
        Err(_) => {
            assert!(false, "[C03][C16] add_dirent does not fail while the cursor has room");
        }
    }
    unsafe { assert!(ghost::DEV.events == 0, "[C03][C16] filling the cursor emits nothing") };
    kani::cover!(matches!(r, Ok(0)), "skipped");
    kani::cover!(matches!(r, Ok(n) if n > 0), "written");
}
pub mod dirent_step_h {
    use super::*;
    h!(c03_k0_n0, dirent_step::<0, 0>(false));
    h!(c03_k0_n1, dirent_step::<0, 1>(false));
    h!(c03_k1_n3, dirent_step::<1, 3>(false));
    h!(c03_k2_n7, dirent_step::<2, 7>(false));
    h!(c03_k1_n8, dirent_step::<1, 8>(false));
    h!(c03_plus_k0_n3, dirent_step::<0, 3>(true));
    h!(c03_plus_k1_n8, dirent_step::<1, 8>(true));
    h!(c03_plus_k2_n1, dirent_step::<2, 1>(true));
}

// ---------------------------------------------------------------- IOCTL
/// IN bytes of ioctl input follow the structure; the filesystem answers with PL output bytes.
pub fn ioctl<const IN: usize, const W: usize, const PL: usize>(p: u8, dev_refuses: bool, insize_mode: u8) {
    let hdr = any_hdr(39);
    let mut body: [u8; 32 + 8] = kani::any();
    // in_size: 0 = as present, 1 = zero, 2 = one more than present, 3 = u32::MAX
    let in_size: u32 = match insize_mode {
        0 => IN as u32,
        1 => 0,
        2 => IN as u32 + 1,
        _ => u32::MAX,
    };
    put32(&mut body, K_IOCTL_IN__IN_SIZE, in_size);
    let snap = body;
    let mut wbuf = [0u8; W];
    let mut script = script_for(p);
    script.bytes_len = PL;
    script.bytes = kani::any();
    script.reply_count = PL == 0; // no output data
    let res = drive(hdr, &mut body[..K_IOCTL_IN_SIZE + IN], &mut wbuf, dev_refuses, script, |s, c| s.ioctl(c));
    let room = W >= 16 + K_IOCTL_OUT_SIZE + PL;
    let too_big = in_size as usize > IN;
    if p == 1 {
        check_c01(&hdr, &res, true, true, room, dev_refuses);
        if too_big {
            assert!(calls() == 0, "[C01] IOCTL claiming more input than present never reaches the filesystem");
            if emitted() {
                assert!(reply_error() == -libc::ENOTTY, "[C01] IOCTL with oversize in_size answered ENOTTY");
            }
        }
    }
    if p == 2 && !too_big {
        check_call(M_IOCTL, &hdr);
        let l = log();
        assert!(l.fh == get64(&snap, K_IOCTL_IN__FH), "[C02] IOCTL handle");
        assert!(l.a[0] as u32 == get32(&snap, K_IOCTL_IN__FLAGS) && l.a[1] as u32 == get32(&snap, K_IOCTL_IN__CMD), "[C02] IOCTL flags/cmd");
        assert!(l.a[2] as u32 == get32(&snap, K_IOCTL_IN__OUT_SIZE), "[C02] IOCTL out_size");
        assert!(l.b[0] == (in_size > 0), "[C02] IOCTL input data present iff in_size > 0");
        if l.b[0] {
            assert!(l.data_len == in_size as usize, "[C02] IOCTL input length");
            let mut i = 0;
            while i < l.data_len {
                assert!(l.data[i] == snap[K_IOCTL_IN_SIZE + i], "[C02] IOCTL input bytes");
                i += 1;
            }
        }
    }
    if p == 3 && !too_big && room && !dev_refuses {
        assert!(emitted(), "[C03] the answer is sent");
        let s = sc();
        let r = reply();
        if s.err != 0 {
            assert!(reply_error() == -expected_errno(s.err) && reply_len() == 16, "[C03] IOCTL error as negated errno");
        } else {
            assert!(reply_error() == 0 && reply_len() == 16 + K_IOCTL_OUT_SIZE + PL, "[C03] IOCTL reply is ioctl_out plus the output data");
            assert!(get32(r, 16 + K_IOCTL_OUT__RESULT) as i32 == s.ioctl_result, "[C03] ioctl_out.result");
            assert!(get32(r, 16 + K_IOCTL_OUT__FLAGS) == 0 && get32(r, 16 + K_IOCTL_OUT__IN_IOVS) == 0 && get32(r, 16 + K_IOCTL_OUT__OUT_IOVS) == 0, "[C03] ioctl_out other fields zero");
            let mut i = 0;
            while i < PL {
                assert!(r[16 + K_IOCTL_OUT_SIZE + i] == kn_bytes()[i], "[C03] IOCTL output bytes");
                i += 1;
            }
        }
    }
    kani::cover!(too_big || !room || dev_refuses || (emitted() && reply_error() == 0), "success reply");
    kani::cover!(true, "end reached");
}
pub mod ioctl_h {
    use super::*;
    h!(c01, ioctl::<4, 48, 4>(1, false, 0));
    h!(c02, ioctl::<4, 48, 4>(2, false, 0));
    h!(c02_noin, ioctl::<4, 48, 0>(2, false, 1));
    h!(c03, ioctl::<4, 48, 4>(3, false, 0));
    h!(c03_nodata, ioctl::<0, 48, 0>(3, false, 0));
    h!(c01_insize_over, ioctl::<4, 48, 4>(1, false, 2));
    h!(c01_insize_max, ioctl::<4, 48, 4>(1, false, 3));
    h!(c01_nospace, ioctl::<4, 33, 4>(1, false, 0));
    h!(c01_devfail, ioctl::<4, 48, 4>(1, true, 0));
}

// ---------------------------------------------------------------- BATCH_FORGET
/// E forget_one records present; `count` field symbolic.
pub fn batch_forget<const E: usize>(p: u8) {
    let hdr = any_hdr(42);
    let mut body: [u8; 8 + 3 * 16] = kani::any();
    if p == 2 {
        put32(&mut body, K_BATCH_FORGET_IN__COUNT, E as u32);
    }
    let snap = body;
    let mut wbuf = [0u8; 64];
    let res = drive(hdr, &mut body[..K_BATCH_FORGET_IN_SIZE + E * K_FORGET_ONE_SIZE], &mut wbuf, false, default_script(), |s, c| s.batch_forget(c));
    let count = get32(&snap, K_BATCH_FORGET_IN__COUNT) as usize;
    check_reply_stream(hdr.unique);
    unsafe {
        if p == 1 {
            assert!(ghost::DEV.events == 0, "[C01] BATCH_FORGET never produces a reply, whatever its content");
            if count > E {
                assert!(calls() == 0 && res.is_err(), "[C01] BATCH_FORGET counting more records than present is rejected silently");
            } else {
                assert!(calls() == 1 && res.is_ok(), "[C01] well-formed BATCH_FORGET is delivered");
            }
        }
        if p == 2 {
            assert!(LOG.calls == 1 && LOG.method == M_BATCH_FORGET, "[C02] BATCH_FORGET invokes batch_forget once");
            assert!(LOG.uid == hdr.uid && LOG.gid == hdr.gid && LOG.pid == hdr.pid as i32, "[C02] caller ids as encoded");
            assert!(LOG.npairs == E, "[C02] BATCH_FORGET delivers as many pairs as encoded");
            let mut i = 0;
            while i < E {
                let o = K_BATCH_FORGET_IN_SIZE + i * K_FORGET_ONE_SIZE;
                assert!(LOG.pairs[i].0 == get64(&snap, o + K_FORGET_ONE__NODEID) && LOG.pairs[i].1 == get64(&snap, o + K_FORGET_ONE__NLOOKUP), "[C02] BATCH_FORGET pair as encoded, in order");
                i += 1;
            }
        }
    }
    kani::cover!(p != 1 || count > E, "count beyond the records present");
    kani::cover!(p != 1 || count <= E, "count within the records present");
}
pub mod batch_forget_h {
    use super::*;
    h!(c01, batch_forget::<2>(1));
    h!(c01_e0, batch_forget::<0>(1));
    h!(c02, batch_forget::<3>(2));
    h!(c02_e1, batch_forget::<1>(2));
}
