// Opcode handlers with a fixed-size request structure (no name / payload), driven directly:
// real `Server::<handler>(SrvContext)` over the model transport.
// One generic body `simple`, instantiated per opcode x {C01,C02,C03} x buffer-geometry variant.
#![allow(unused_imports, static_mut_refs, clippy::all)]
use super::verif_support::*;
use super::*;
use crate::transport::ghost;

type Call = fn(&Srv, Ctx<'_>) -> crate::Result<usize>;

/// N = bytes present after the in-header, W = reply buffer capacity (both concrete per instance).
pub fn simple<const N: usize, const W: usize>(
    p: u8,
    dev_refuses: bool,
    opcode: u32,
    s: usize,
    method: u32,
    reply_body: usize,
    call: Call,
    args: fn(&[u8]),
    reply_chk: fn(&[u8]),
) {
    let hdr = any_hdr(opcode);
    let mut body: [u8; N] = kani::any();
    let snap = body;
    let mut wbuf = [0u8; W];
    let res = drive(hdr, &mut body, &mut wbuf, dev_refuses, script_for(p), call);
    let wellformed = N >= s;
    let room = W >= K_OUT_HEADER_SIZE + reply_body;
    if p == 1 {
        check_c01(&hdr, &res, wellformed, true, room, dev_refuses);
        if !wellformed {
            assert!(calls() == 0, "[C01] a truncated request never reaches the filesystem");
            assert!(res.is_err(), "[C01] a truncated request is reported as an error");
        }
    }
    if p == 2 && wellformed {
        check_call(method, &hdr);
        args(&snap);
    }
    if p == 3 && wellformed && room && !dev_refuses {
        assert!(emitted(), "[C03] the answer is sent");
        if check_reply_shape(reply_body) {
            reply_chk(reply());
        }
    }
    let full = wellformed && room && !dev_refuses;
    kani::cover!(!full || (emitted() && reply_error() == 0), "success reply reachable");
    kani::cover!(!full || p == 2 || (emitted() && reply_error() < 0), "error reply reachable");
    kani::cover!(wellformed || calls() == 0, "end reached");
}

fn no_args(_b: &[u8]) {}
fn no_reply(_b: &[u8]) {}
fn log() -> &'static Log {
    unsafe { &LOG }
}

// ---- per opcode: argument oracle (kernel offsets) and reply oracle
fn getattr_args(b: &[u8]) {
    let flags = get32(b, K_GETATTR_IN__GETATTR_FLAGS);
    let l = log();
    assert!(l.has_fh == (flags & 1 != 0), "[C02] GETATTR handle present iff FUSE_GETATTR_FH");
    if l.has_fh {
        assert!(l.fh == get64(b, K_GETATTR_IN__FH), "[C02] GETATTR handle as encoded");
    }
}
fn attr_reply(r: &[u8]) {
    let s = sc();
    assert!(get64(r, 16 + K_ATTR_OUT__ATTR_VALID) == s.dur.as_secs(), "[C03] attr_valid");
    assert!(get32(r, 16 + K_ATTR_OUT__ATTR_VALID_NSEC) == s.dur.subsec_nanos(), "[C03] attr_valid_nsec");
    check_attr(r, 16 + K_ATTR_OUT__ATTR_INO, &s.st, 0);
}
fn setattr_args(b: &[u8]) {
    let valid = get32(b, K_SETATTR_IN__VALID);
    let l = log();
    assert!(l.has_fh == (valid & 0x40 != 0), "[C02] SETATTR handle present iff FATTR_FH");
    if l.has_fh {
        assert!(l.fh == get64(b, K_SETATTR_IN__FH), "[C02] SETATTR handle as encoded");
    }
    // valid mask: every FATTR_* bit the kernel defines for attributes is passed through
    let known = 0x1 | 0x2 | 0x4 | 0x8 | 0x10 | 0x20 | 0x80 | 0x100 | 0x400 | 0x800;
    assert!(l.a[0] as u32 == valid & known, "[C02] SETATTR valid mask as encoded");
    let st = l.st.unwrap();
    assert!(st.st_mode == get32(b, K_SETATTR_IN__MODE), "[C02] SETATTR mode");
    assert!(st.st_uid == get32(b, K_SETATTR_IN__UID) && st.st_gid == get32(b, K_SETATTR_IN__GID), "[C02] SETATTR owner ids");
    assert!(st.st_size as u64 == get64(b, K_SETATTR_IN__SIZE), "[C02] SETATTR size");
    assert!(st.st_atime as u64 == get64(b, K_SETATTR_IN__ATIME) && st.st_mtime as u64 == get64(b, K_SETATTR_IN__MTIME)
        && st.st_ctime as u64 == get64(b, K_SETATTR_IN__CTIME), "[C02] SETATTR times");
    assert!(st.st_atime_nsec as u32 == get32(b, K_SETATTR_IN__ATIMENSEC) && st.st_mtime_nsec as u32 == get32(b, K_SETATTR_IN__MTIMENSEC)
        && st.st_ctime_nsec as u32 == get32(b, K_SETATTR_IN__CTIMENSEC), "[C02] SETATTR nsecs");
}
fn open_args(b: &[u8]) {
    let l = log();
    assert!(l.a[0] as u32 == get32(b, K_OPEN_IN__FLAGS), "[C02] OPEN flags");
    assert!(l.a[1] as u32 == get32(b, K_OPEN_IN__OPEN_FLAGS), "[C02] OPEN fuse flags");
}
fn open_reply(r: &[u8]) {
    let s = sc();
    assert!(get64(r, 16 + K_OPEN_OUT__FH) == s.handle.unwrap_or(0), "[C03] open_out.fh");
    assert!(get32(r, 16 + K_OPEN_OUT__OPEN_FLAGS) == OpenOptions::from_bits_truncate(s.opts).bits(), "[C03] open_out.open_flags carries the options returned");
    assert!(get32(r, 16 + 12) == s.passthrough.unwrap_or(0), "[C03] open_out passthrough/backing id");
}
fn opendir_args(b: &[u8]) {
    assert!(log().a[0] as u32 == get32(b, K_OPEN_IN__FLAGS), "[C02] OPENDIR flags");
}
fn opendir_reply(r: &[u8]) {
    let s = sc();
    assert!(get64(r, 16 + K_OPEN_OUT__FH) == s.handle.unwrap_or(0), "[C03] opendir open_out.fh");
    assert!(get32(r, 16 + K_OPEN_OUT__OPEN_FLAGS) == OpenOptions::from_bits_truncate(s.opts).bits(), "[C03] opendir open_out.open_flags");
    assert!(get32(r, 16 + 12) == 0, "[C03] opendir open_out padding is zero");
}
fn statfs_reply(r: &[u8]) {
    let s = sc();
    assert!(get64(r, 16 + K_KSTATFS__BLOCKS) == s.v64, "[C03] statfs blocks");
    assert!(get64(r, 16 + K_KSTATFS__BFREE) == s.entry.inode, "[C03] statfs bfree");
    assert!(get64(r, 16 + K_KSTATFS__BAVAIL) == s.entry.generation, "[C03] statfs bavail");
    assert!(get64(r, 16 + K_KSTATFS__FILES) == s.ent_ino, "[C03] statfs files");
    assert!(get64(r, 16 + K_KSTATFS__FFREE) == s.ent_off, "[C03] statfs ffree");
    assert!(get32(r, 16 + K_KSTATFS__BSIZE) == s.v32, "[C03] statfs bsize");
    assert!(get32(r, 16 + K_KSTATFS__NAMELEN) == s.opts, "[C03] statfs namelen");
    assert!(get32(r, 16 + K_KSTATFS__FRSIZE) == s.ent_type, "[C03] statfs frsize");
}
fn release_args(b: &[u8]) {
    let l = log();
    let rf = get32(b, K_RELEASE_IN__RELEASE_FLAGS);
    assert!(l.fh == get64(b, K_RELEASE_IN__FH), "[C02] RELEASE handle");
    assert!(l.a[0] as u32 == get32(b, K_RELEASE_IN__FLAGS), "[C02] RELEASE flags");
    assert!(l.b[0] == (rf & 1 != 0), "[C02] RELEASE flush iff FUSE_RELEASE_FLUSH");
    assert!(l.b[1] == (rf & 2 != 0), "[C02] RELEASE flock_release iff FUSE_RELEASE_FLOCK_UNLOCK");
    assert!(l.has_opt == (rf & 3 != 0), "[C02] RELEASE lock owner present iff flush or flock unlock");
    if l.has_opt {
        assert!(l.opt == get64(b, K_RELEASE_IN__LOCK_OWNER), "[C02] RELEASE lock owner");
    }
}
fn releasedir_args(b: &[u8]) {
    let l = log();
    assert!(l.fh == get64(b, K_RELEASE_IN__FH), "[C02] RELEASEDIR handle");
    assert!(l.a[0] as u32 == get32(b, K_RELEASE_IN__FLAGS), "[C02] RELEASEDIR flags");
}
fn fsync_args(b: &[u8]) {
    let l = log();
    assert!(l.fh == get64(b, K_FSYNC_IN__FH), "[C02] FSYNC handle");
    assert!(l.b[0] == (get32(b, K_FSYNC_IN__FSYNC_FLAGS) & 1 != 0), "[C02] FSYNC datasync iff fsync_flags & 1");
}
fn flush_args(b: &[u8]) {
    let l = log();
    assert!(l.fh == get64(b, K_FLUSH_IN__FH), "[C02] FLUSH handle");
    assert!(l.a[0] == get64(b, K_FLUSH_IN__LOCK_OWNER), "[C02] FLUSH lock owner");
}
fn lk_args(b: &[u8]) {
    let l = log();
    assert!(l.fh == get64(b, K_LK_IN__FH), "[C02] LK handle");
    assert!(l.a[0] == get64(b, K_LK_IN__OWNER), "[C02] LK owner");
    assert!(l.a[1] == get64(b, K_LK_IN__LK_START) && l.a[2] == get64(b, K_LK_IN__LK_END), "[C02] LK range");
    assert!(l.a[3] as u32 == get32(b, K_LK_IN__LK_TYPE) && l.a[4] as u32 == get32(b, K_LK_IN__LK_PID), "[C02] LK type/pid");
    assert!(l.a[5] as u32 == get32(b, K_LK_IN__LK_FLAGS), "[C02] LK flags");
}
fn lk_reply(r: &[u8]) {
    let s = sc();
    assert!(get64(r, 16 + K_LK_OUT__LK_START) == s.lock.start && get64(r, 16 + K_LK_OUT__LK_END) == s.lock.end, "[C03] lk_out range");
    assert!(get32(r, 16 + K_LK_OUT__LK_TYPE) == s.lock.lock_type && get32(r, 16 + K_LK_OUT__LK_PID) == s.lock.pid, "[C03] lk_out type/pid");
}
fn access_args(b: &[u8]) {
    assert!(log().a[0] as u32 == get32(b, K_ACCESS_IN__MASK), "[C02] ACCESS mask");
}
fn bmap_args(b: &[u8]) {
    let l = log();
    assert!(l.a[0] == get64(b, K_BMAP_IN__BLOCK) && l.a[1] as u32 == get32(b, K_BMAP_IN__BLOCKSIZE), "[C02] BMAP block/blocksize");
}
fn v64_reply(r: &[u8]) {
    assert!(get64(r, 16) == sc().v64, "[C03] 64-bit result value");
}
fn poll_args(b: &[u8]) {
    let l = log();
    assert!(l.fh == get64(b, K_POLL_IN__FH) && l.a[0] == get64(b, K_POLL_IN__KH), "[C02] POLL handles");
    assert!(l.a[1] as u32 == get32(b, K_POLL_IN__FLAGS) && l.a[2] as u32 == get32(b, K_POLL_IN__EVENTS), "[C02] POLL flags/events");
}
fn poll_reply(r: &[u8]) {
    assert!(get32(r, 16 + K_POLL_OUT__REVENTS) == sc().v32 && get32(r, 16 + K_POLL_OUT__PADDING) == 0, "[C03] poll_out revents");
}
fn fallocate_args(b: &[u8]) {
    let l = log();
    assert!(l.fh == get64(b, K_FALLOCATE_IN__FH), "[C02] FALLOCATE handle");
    assert!(l.a[0] as u32 == get32(b, K_FALLOCATE_IN__MODE), "[C02] FALLOCATE mode");
    assert!(l.a[1] == get64(b, K_FALLOCATE_IN__OFFSET) && l.a[2] == get64(b, K_FALLOCATE_IN__LENGTH), "[C02] FALLOCATE offset/length");
}
fn lseek_args(b: &[u8]) {
    let l = log();
    assert!(l.fh == get64(b, K_LSEEK_IN__FH), "[C02] LSEEK handle");
    assert!(l.a[0] == get64(b, K_LSEEK_IN__OFFSET) && l.a[1] as u32 == get32(b, K_LSEEK_IN__WHENCE), "[C02] LSEEK offset/whence");
}
fn listxattr_args(b: &[u8]) {
    assert!(log().a[0] as u32 == get32(b, K_GETXATTR_IN__SIZE), "[C02] LISTXATTR size");
}

macro_rules! h {
    ($name:ident, $body:expr) => {
        #[kani::proof]
        #[kani::unwind(16)]
        #[kani::stub(std::rt::thread_cleanup, noop)]
        #[kani::stub(std::fmt::format, empty_string)]
        pub fn $name() {
            $body
        }
    };
}

/// standard family: exact geometry for C01/C02/C03 + C01 geometry variants
macro_rules! family {
    ($m:ident, $op:expr, $s:expr, $meth:expr, $r:expr, $call:expr, $args:expr, $reply:expr) => {
        pub mod $m {
            use super::*;
            h!(c01, simple::<{ $s }, { 16 + $r + 8 }>(1, false, $op, $s, $meth, $r, $call, $args, $reply));
            h!(c02, simple::<{ $s }, { 16 + $r + 8 }>(2, false, $op, $s, $meth, $r, $call, $args, $reply));
            h!(c03, simple::<{ $s }, { 16 + $r + 8 }>(3, false, $op, $s, $meth, $r, $call, $args, $reply));
            h!(c01_long, simple::<{ $s + 9 }, { 16 + $r }>(1, false, $op, $s, $meth, $r, $call, $args, $reply));
            h!(c01_trunc, simple::<{ if $s > 0 { $s - 1 } else { 0 } }, { 16 + $r + 8 }>(1, false, $op, $s, $meth, $r, $call, $args, $reply));
            h!(c01_nospace, simple::<{ $s }, { 16 + $r - 1 }>(1, false, $op, $s, $meth, $r, $call, $args, $reply));
            h!(c01_tiny, simple::<{ $s }, 15>(1, false, $op, $s, $meth, $r, $call, $args, $reply));
            h!(c01_zero, simple::<{ $s }, 0>(1, false, $op, $s, $meth, $r, $call, $args, $reply));
            h!(c01_devfail, simple::<{ $s }, { 16 + $r + 8 }>(1, true, $op, $s, $meth, $r, $call, $args, $reply));
        }
    };
}

family!(getattr, 3, K_GETATTR_IN_SIZE, M_GETATTR, K_ATTR_OUT_SIZE, |s, c| s.getattr(c), getattr_args, attr_reply);
family!(setattr, 4, K_SETATTR_IN_SIZE, M_SETATTR, K_ATTR_OUT_SIZE, |s, c| s.setattr(c), setattr_args, attr_reply);
family!(open, 14, K_OPEN_IN_SIZE, M_OPEN, K_OPEN_OUT_SIZE, |s, c| s.open(c), open_args, open_reply);
family!(opendir, 27, K_OPEN_IN_SIZE, M_OPENDIR, K_OPEN_OUT_SIZE, |s, c| s.opendir(c), opendir_args, opendir_reply);
family!(statfs, 17, 0, M_STATFS, K_KSTATFS_SIZE, |s, c| s.statfs(c), no_args, statfs_reply);
family!(release, 18, K_RELEASE_IN_SIZE, M_RELEASE, 0, |s, c| s.release(c), release_args, no_reply);
family!(releasedir, 29, K_RELEASE_IN_SIZE, M_RELEASEDIR, 0, |s, c| s.releasedir(c), releasedir_args, no_reply);
family!(fsync, 20, K_FSYNC_IN_SIZE, M_FSYNC, 0, |s, c| s.fsync(c), fsync_args, no_reply);
family!(fsyncdir, 30, K_FSYNC_IN_SIZE, M_FSYNCDIR, 0, |s, c| s.fsyncdir(c), fsync_args, no_reply);
family!(flush, 25, K_FLUSH_IN_SIZE, M_FLUSH, 0, |s, c| s.flush(c), flush_args, no_reply);
family!(getlk, 31, K_LK_IN_SIZE, M_GETLK, K_LK_OUT_SIZE, |s, c| s.getlk(c), lk_args, lk_reply);
family!(setlk, 32, K_LK_IN_SIZE, M_SETLK, 0, |s, c| s.setlk(c), lk_args, no_reply);
family!(setlkw, 33, K_LK_IN_SIZE, M_SETLKW, 0, |s, c| s.setlkw(c), lk_args, no_reply);
family!(access, 34, K_ACCESS_IN_SIZE, M_ACCESS, 0, |s, c| s.access(c), access_args, no_reply);
family!(bmap, 37, K_BMAP_IN_SIZE, M_BMAP, K_BMAP_OUT_SIZE, |s, c| s.bmap(c), bmap_args, v64_reply);
family!(poll, 40, K_POLL_IN_SIZE, M_POLL, K_POLL_OUT_SIZE, |s, c| s.poll(c), poll_args, poll_reply);
family!(fallocate, 43, K_FALLOCATE_IN_SIZE, M_FALLOCATE, 0, |s, c| s.fallocate(c), fallocate_args, no_reply);
family!(lseek, 46, K_LSEEK_IN_SIZE, M_LSEEK, K_LSEEK_OUT_SIZE, |s, c| s.lseek(c), lseek_args, v64_reply);

// ---------------------------------------------------------------- opcodes with their own shape

/// FORGET: never a reply, whatever the content; count as encoded.
pub fn forget<const N: usize, const W: usize>(p: u8) {
    let hdr = any_hdr(2);
    let mut body: [u8; N] = kani::any();
    let snap = body;
    let mut wbuf = [0u8; W];
    let res = drive(hdr, &mut body, &mut wbuf, false, script_for(p), |s, c| s.forget(c));
    if p == 1 {
        check_c01(&hdr, &res, N >= K_FORGET_IN_SIZE, false, true, false);
        if N < K_FORGET_IN_SIZE {
            assert!(calls() == 0 && res.is_err(), "[C01] truncated FORGET is rejected silently");
        }
    }
    if p == 2 && N >= K_FORGET_IN_SIZE {
        check_call(M_FORGET, &hdr);
        assert!(log().a[0] == get64(&snap, K_FORGET_IN__NLOOKUP), "[C02] FORGET count as encoded");
    }
    kani::cover!(N < K_FORGET_IN_SIZE || calls() == 1, "forget delivered");
}
pub mod forget_h {
    use super::*;
    h!(c01, forget::<{ K_FORGET_IN_SIZE }, 64>(1));
    h!(c02, forget::<{ K_FORGET_IN_SIZE }, 64>(2));
    h!(c01_trunc, forget::<{ K_FORGET_IN_SIZE - 1 }, 64>(1));
    h!(c01_long, forget::<{ K_FORGET_IN_SIZE + 9 }, 0>(1));
}

/// INTERRUPT: no filesystem call, no reply.  DESTROY: destroy() once, one empty reply.
/// NOTIFY_REPLY: notify_reply() once; reply only on error.
pub fn misc(p: u8, which: u32, dev_refuses: bool) {
    let hdr = any_hdr(which);
    let mut body: [u8; 8] = kani::any();
    let mut wbuf = [0u8; 32];
    let res = drive(hdr, &mut body, &mut wbuf, dev_refuses, script_for(p), |s, c| match which {
        36 => {
            s.interrupt(c);
            Ok(0)
        }
        38 => {
            s.destroy(c);
            Ok(0)
        }
        _ => s.notify_reply(c),
    });
    check_reply_stream(hdr.unique);
    let ev = unsafe { ghost::DEV.events };
    match which {
        36 => {
            if p == 1 {
                assert!(ev == 0, "[C01] INTERRUPT has no reply");
            }
            if p == 2 {
                assert!(calls() == 0, "[C02] INTERRUPT invokes no filesystem operation");
            }
        }
        38 => {
            if p == 1 {
                assert!(ev == 1, "[C01] DESTROY gets exactly one reply");
            }
            if p == 2 {
                assert!(calls() == 1 && log().method == M_DESTROY, "[C02] DESTROY invokes destroy once");
            }
            if p == 3 && emitted() {
                assert!(reply_error() == 0 && reply_len() == 16, "[C03] DESTROY reply is an empty success");
            }
        }
        _ => {
            if p == 2 {
                assert!(calls() == 1 && log().method == M_NOTIFY_REPLY, "[C02] NOTIFY_REPLY invokes notify_reply once");
            }
            if p == 1 {
                assert!(ev == if sc().err != 0 { 1 } else { 0 }, "[C01] NOTIFY_REPLY answers only on error");
            }
            if p == 3 && emitted() {
                assert!(reply_error() == -expected_errno(sc().err) && reply_len() == 16, "[C03] NOTIFY_REPLY error as negated errno");
            }
        }
    }
    let _ = res;
    kani::cover!(true, "end reached");
}
pub mod misc_h {
    use super::*;
    h!(interrupt_c01, misc(1, 36, false));
    h!(interrupt_c02, misc(2, 36, false));
    h!(destroy_c01, misc(1, 38, false));
    h!(destroy_c01_devfail, misc(1, 38, true));
    h!(destroy_c02, misc(2, 38, false));
    h!(destroy_c03, misc(3, 38, false));
    h!(notify_reply_c01, misc(1, 41, false));
    h!(notify_reply_c02, misc(2, 41, false));
    h!(notify_reply_c03, misc(3, 41, false));
}

/// READLINK / LISTXATTR: variable-length byte replies (<= 8 bytes here) or a count.
pub fn bytes_reply<const N: usize, const W: usize, const PL: usize>(p: u8, which: u32, dev_refuses: bool) {
    let hdr = any_hdr(which);
    let mut body: [u8; N] = kani::any();
    let snap = body;
    let mut wbuf = [0u8; W];
    let mut script = script_for(p);
    if p != 2 {
        // payload length concrete per instance (a symbolic-length Vec copy exhausts the solver)
        script.bytes_len = PL;
        script.bytes = kani::any();
        script.reply_count = which == 23 && kani::any();
        if p == 3 && PL > 0 {
            // payload content is checked against a plain success; the symbolic error answer is
            // combined with the empty payload (c03_len0).  A symbolic io::Result<Vec<u8>> keeps
            // its discriminant in the Vec's capacity niche and the error in the pointer field:
            // CBMC then treats the payload pointer as possibly-integer and reads nondet bytes
            // (spurious counterexample, did not reproduce natively).
            script.err = 0;
        }
    }
    let res = drive(hdr, &mut body, &mut wbuf, dev_refuses, script, |s, c| if which == 5 { s.readlink(c) } else { s.listxattr(c) });
    let s = sc();
    let need = if which == 5 { 0 } else { K_GETXATTR_IN_SIZE };
    let wellformed = N >= need;
    let room = W >= 16 + 8;
    if p == 1 {
        check_c01(&hdr, &res, wellformed, true, room, dev_refuses);
    }
    if p == 2 && wellformed {
        check_call(if which == 5 { M_READLINK } else { M_LISTXATTR }, &hdr);
        if which == 23 {
            listxattr_args(&snap);
        }
    }
    if p == 3 && wellformed && room && !dev_refuses {
        assert!(emitted(), "[C03] the answer is sent");
        let r = reply();
        if s.err != 0 {
            assert!(reply_error() == -expected_errno(s.err) && reply_len() == 16, "[C03] error as negated errno, bare header");
        } else if kn_reply_count() {
            assert!(reply_len() == 16 + K_GETXATTR_OUT_SIZE && reply_error() == 0, "[C03] count reply is a getxattr_out");
            assert!(get32(r, 16 + K_GETXATTR_OUT__SIZE) == s.v32 && get32(r, 16 + K_GETXATTR_OUT__PADDING) == 0, "[C03] getxattr_out.size");
        } else {
            assert!(reply_len() == 16 + kn_bytes_len() && reply_error() == 0, "[C03] byte reply carries exactly the bytes returned");
            let mut i = 0;
            while i < kn_bytes_len() {
                assert!(r[16 + i] == kn_bytes()[i], "[C03] byte reply content");
                i += 1;
            }
        }
    }
    kani::cover!(!(wellformed && room && !dev_refuses) || p == 2 || PL == 0 || (emitted() && reply_len() > 16), "non-empty payload reply");
}
pub mod readlink {
    use super::*;
    h!(c01, bytes_reply::<0, 32, 3>(1, 5, false));
    h!(c02, bytes_reply::<0, 32, 3>(2, 5, false));
    h!(c03, bytes_reply::<0, 32, 3>(3, 5, false));
    h!(c03_len0, bytes_reply::<0, 32, 0>(3, 5, false));
    h!(c03_len8, bytes_reply::<0, 32, 8>(3, 5, false));
    h!(c01_nospace, bytes_reply::<0, 20, 3>(1, 5, false));
    h!(c01_devfail, bytes_reply::<0, 32, 3>(1, 5, true));
}
pub mod listxattr {
    use super::*;
    h!(c01, bytes_reply::<{ K_GETXATTR_IN_SIZE }, 32, 3>(1, 23, false));
    h!(c02, bytes_reply::<{ K_GETXATTR_IN_SIZE }, 32, 3>(2, 23, false));
    h!(c03, bytes_reply::<{ K_GETXATTR_IN_SIZE }, 32, 3>(3, 23, false));
    h!(c03_len0, bytes_reply::<{ K_GETXATTR_IN_SIZE }, 32, 0>(3, 23, false));
    h!(c03_len8, bytes_reply::<{ K_GETXATTR_IN_SIZE }, 32, 8>(3, 23, false));
    h!(c01_trunc, bytes_reply::<{ K_GETXATTR_IN_SIZE - 1 }, 32, 3>(1, 23, false));
    h!(c01_nospace, bytes_reply::<{ K_GETXATTR_IN_SIZE }, 20, 3>(1, 23, false));
}

// ---------------------------------------------------------------- notifications
/// notify_inval_entry / notify_inval_inode / notify_resend: one emission, length = size of the
/// message, unique 0, code in the error field, arguments at the kernel's offsets.
pub fn notify(which: u8) {
    use crate::transport::{FuseDevWriter, ghost};
    let server = new_server();
    let mut wbuf = [0u8; 64];
    let w = FuseDevWriter::<()>::new(7, &mut wbuf).unwrap();
    ghost::reset(false);
    let (a, b, c): (u64, u64, u64) = (kani::any(), kani::any(), kani::any());
    let name = std::ffi::CStr::from_bytes_with_nul(b"abc\0").unwrap();
    let r = match which {
        0 => server.notify_inval_entry(w, a, name).map(|_| ()),
        1 => server.notify_inval_inode(w, a, b, c).map(|_| ()),
        _ => server.notify_resend(w),
    };
    assert!(r.is_ok(), "[C03] notification is sent");
    unsafe {
        assert!(ghost::DEV.events == 1, "[C03] a notification is one device write");
        let bts = &ghost::DEV.bytes;
        let n = ghost::DEV.len;
        assert!(get32(bts, 0) as usize == n, "[C03] notification length field equals its size");
        assert!(get64(bts, 8) == 0, "[C03] notifications carry unique 0");
        match which {
            0 => {
                assert!(get32(bts, 4) == 3, "[C03] FUSE_NOTIFY_INVAL_ENTRY code");
                assert!(n == 16 + K_NOTIFY_INVAL_ENTRY_OUT_SIZE + 4, "[C03] inval_entry size = header + struct + name + NUL");
                assert!(get64(bts, 16 + K_NOTIFY_INVAL_ENTRY_OUT__PARENT) == a && get32(bts, 16 + K_NOTIFY_INVAL_ENTRY_OUT__NAMELEN) == 3, "[C03] inval_entry parent/namelen");
                assert!(bts[32] == b'a' && bts[33] == b'b' && bts[34] == b'c' && bts[35] == 0, "[C03] inval_entry name");
            }
            1 => {
                assert!(get32(bts, 4) == 2, "[C03] FUSE_NOTIFY_INVAL_INODE code");
                assert!(n == 16 + K_NOTIFY_INVAL_INODE_OUT_SIZE, "[C03] inval_inode size");
                assert!(get64(bts, 16 + K_NOTIFY_INVAL_INODE_OUT__INO) == a && get64(bts, 16 + K_NOTIFY_INVAL_INODE_OUT__OFF) == b && get64(bts, 16 + K_NOTIFY_INVAL_INODE_OUT__LEN) == c, "[C03] inval_inode ino/off/len");
            }
            _ => {
                assert!(get32(bts, 4) == 7 && n == 16, "[C03] FUSE_NOTIFY_RESEND is a bare header with code 7");
            }
        }
    }
    kani::cover!(true, "reached");
    std::mem::forget(server);
}
pub mod notify_h {
    use super::*;
    h!(c03_inval_entry, notify(0));
    h!(c03_inval_inode, notify(1));
    h!(c03_resend, notify(2));
}
