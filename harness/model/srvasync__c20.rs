// C20: the asynchronous message handler behaves exactly like the synchronous one.
// One symbolic request is handled twice from identical state: Server::handle_message and
// kani::block_on(Server::async_handle_message); recorded filesystem call and device bytes are
// compared.  Model transport (async writer methods mirror src/transport/fusedev `mod async_io`).
#![cfg(feature = "async-io")]
#![allow(unused_imports, static_mut_refs, clippy::all)]
use super::super::sync_io::verif_support::*;
use super::*;
use crate::transport::{ghost, FuseBuf, FuseDevWriter, Reader};
use std::sync::Arc;

struct Snap {
    events: usize,
    failed: usize,
    len: usize,
    bytes: [u8; 120],
    calls: u32,
    method: u32,
    ino: u64,
    uid: u32,
    gid: u32,
    pid: i32,
    fh: u64,
    has_fh: bool,
    a: [u64; 8],
    b: [bool; 4],
    opt: u64,
    has_opt: bool,
    name_len: usize,
    data_len: usize,
    data: [u8; NB],
    ok: bool,
}

fn snap(ok: bool) -> Snap {
    unsafe {
        let mut bytes = [0u8; 120];
        bytes.copy_from_slice(&ghost::DEV.bytes[..120]);
        Snap {
            events: ghost::DEV.events, failed: ghost::DEV.failed, len: ghost::DEV.len, bytes,
            calls: LOG.calls, method: LOG.method, ino: LOG.ino, uid: LOG.uid, gid: LOG.gid, pid: LOG.pid,
            fh: LOG.fh, has_fh: LOG.has_fh, a: LOG.a, b: LOG.b, opt: LOG.opt, has_opt: LOG.has_opt,
            name_len: LOG.name_len, data_len: LOG.data_len, data: LOG.data, ok,
        }
    }
}

fn zeros(_b: &mut [u8]) {}
fn name1(b: &mut [u8]) {
    let n = b.len();
    b[n - 2] = b'a';
}

/// errmode: 0 success answer, 1 symbolic errno answer
fn mk_script(errmode: u8, errno: i32) -> Script {
    let mut s = default_script();
    s.err = if errmode == 0 { 0 } else { errno };
    s
}

pub fn both<const N: usize, const W: usize>(op: u32, fill: fn(&mut [u8]), symbody: bool, lenmode: u8, errmode: u8) {
    let mut req: [u8; N] = if symbody { kani::any() } else { [0u8; N] };
    let len: u32 = match lenmode {
        0 => N as u32,
        1 => (1u32 << 20) + 0x1000 + 1,
        _ => kani::any(),
    };
    let (unique, _nodeid, _uid, _gid, _pid) = sym_header(&mut req, op, len);
    fill(&mut req);
    let mut req2 = req;
    let errno = any_err_code(false);
    let server = new_server();

    // synchronous
    set_script(mk_script(errmode, errno));
    reset_log();
    ghost::reset(false);
    let mut wbuf = [0u8; W];
    let r1 = handle(&server, &mut req, &mut wbuf);
    let s1 = snap(r1.is_ok());
    std::mem::forget(r1);

    // asynchronous, same request, same initial state
    set_script(mk_script(errmode, errno));
    reset_log();
    ghost::reset(false);
    let mut wbuf2 = [0u8; W];
    let r = Reader::<()>::from_fuse_buffer(FuseBuf::new(&mut req2)).unwrap();
    let w = FuseDevWriter::<()>::new(7, &mut wbuf2).unwrap();
    let r2 = kani::block_on(unsafe { server.async_handle_message(r, w.into(), None, None) });
    let s2 = snap(r2.is_ok());
    std::mem::forget(r2);
    std::mem::forget(server);

    assert!(s1.calls == s2.calls && s1.method == s2.method, "[C20] the asynchronous path invokes the same filesystem operation as the synchronous one");
    if s1.calls > 0 {
        assert!(s1.ino == s2.ino && s1.uid == s2.uid && s1.gid == s2.gid && s1.pid == s2.pid, "[C20] same node id and caller ids");
        assert!(s1.fh == s2.fh && s1.has_fh == s2.has_fh && s1.opt == s2.opt && s1.has_opt == s2.has_opt, "[C20] same handle / lock-owner arguments");
        assert!(s1.a[0] == s2.a[0] && s1.a[1] == s2.a[1] && s1.a[2] == s2.a[2] && s1.b[0] == s2.b[0] && s1.b[1] == s2.b[1], "[C20] same scalar arguments");
        assert!(s1.name_len == s2.name_len && s1.data_len == s2.data_len, "[C20] same name / payload lengths");
    }
    assert!(s1.events == s2.events, "[C20] same number of device writes (a reply, or the same absence of a reply)");
    if s1.events == 1 && s2.events == 1 {
        assert!(s1.len == s2.len, "[C20] same reply length");
        // compared as 15 64-bit words (replies here are at most 16 + 104 bytes; the tail beyond
        // the reply length is zero in both recordings)
        let mut i = 0;
        while i < 15 {
            if i * 8 < s1.len {
                assert!(get64(&s1.bytes, i * 8) == get64(&s2.bytes, i * 8), "[C20] same reply bytes");
            }
            i += 1;
        }
    }
    let _ = unique;
    kani::cover!(s1.events == 1, "sync replied");
    kani::cover!(true, "end reached");
}

macro_rules! h {
    ($name:ident, $body:expr) => {
        #[kani::proof]
        #[kani::unwind(17)]
        #[kani::stub(std::rt::thread_cleanup, noop)]
        #[kani::stub(std::fmt::format, empty_string)]
        #[kani::stub(std::ffi::CStr::from_bytes_with_nul, cstr_from_bytes_with_nul)]
        pub fn $name() {
            $body
        }
    };
}

pub mod c20 {
    use super::*;
    // async-specific handlers
    h!(getattr_ok, both::<{ 40 + K_GETATTR_IN_SIZE }, 160>(3, zeros, true, 0, 0));
    h!(getattr_err, both::<{ 40 + K_GETATTR_IN_SIZE }, 160>(3, zeros, true, 0, 1));
    h!(setattr_ok, both::<{ 40 + K_SETATTR_IN_SIZE }, 160>(4, zeros, true, 0, 0));
    h!(lookup_ok, both::<{ 40 + 2 }, 160>(1, name1, false, 0, 0));
    h!(open_ok, both::<{ 40 + K_OPEN_IN_SIZE }, 160>(14, zeros, true, 0, 0));
    h!(fsync_err, both::<{ 40 + K_FSYNC_IN_SIZE }, 160>(20, zeros, true, 0, 1));
    h!(fallocate_ok, both::<{ 40 + K_FALLOCATE_IN_SIZE }, 160>(43, zeros, true, 0, 0));
    h!(write_ok, both::<{ 40 + K_WRITE_IN_SIZE + 4 }, 160>(16, zeros, true, 0, 0));
    h!(read_ok, both::<{ 40 + K_READ_IN_SIZE }, 160>(15, zeros, true, 0, 0));
    // handlers shared with the synchronous path
    h!(unlink_ok, both::<{ 40 + 2 }, 160>(10, name1, false, 0, 0));
    h!(release_err, both::<{ 40 + K_RELEASE_IN_SIZE }, 160>(18, zeros, true, 0, 1));
    // preamble
    h!(forget_oversize, both::<{ 40 + K_FORGET_IN_SIZE }, 160>(2, zeros, true, 1, 0));
    h!(forget_ok, both::<{ 40 + K_FORGET_IN_SIZE }, 160>(2, zeros, true, 0, 0));
    h!(getattr_oversize, both::<{ 40 + K_GETATTR_IN_SIZE }, 160>(3, zeros, true, 1, 0));
    h!(getattr_tiny_reply_buffer, both::<{ 40 + K_GETATTR_IN_SIZE }, 8>(3, zeros, true, 0, 0));
    h!(unknown_opcode, both::<{ 40 + 8 }, 160>(19, zeros, true, 0, 0));
}
