// MODEL TRANSPORT (verification stub) — replaces src/transport/mod.rs, src/transport/fusedev/ and
// src/transport/virtiofs/ in the `model` overlay.  src/transport/fs_cache_req_handler.rs stays real.
//
// It offers the API that `api::server::*` uses (same names, same signatures, same error kinds)
// over ONE flat request buffer and ONE flat reply buffer, and records what would have reached
// `/dev/fuse` in a ghost device (`ghost::DEV`): the bytes of the first emission and the number of
// emission events (one event == one `write(2)`/`writev(2)` call on the fuse fd in the real
// `FuseDevWriter`).  `FuseDevWriter` below mirrors src/transport/fusedev/mod.rs line by line
// (split_at / commit / check_available_space incl. its `assert!` / write / write_vectored /
// write_from_at); the only differences are
//   * the reply memory is addressed through (ptr, len, cap) instead of a `Vec::from_raw_parts`,
//   * `nix::unistd::write` / `nix::sys::uio::writev` are replaced by `ghost::emit`.
// The Reader is a cursor over a flat buffer (the real one walks a VecDeque<VolatileSlice>).
//
// Everything that uses this file states "model transport" in its evidence.  The model is tied to
// the real code by (i) the repository's own `api::server` unit tests and the real fusedev writer
// tests, which are run against this model on every check (`engine/validate_model.py`), (ii) replay
// of every counterexample on the real stack.

#![allow(missing_docs)]

use std::io::{self, IoSlice, Read, Write};
use std::marker::PhantomData;
use std::mem::{size_of, MaybeUninit};
use std::os::unix::io::RawFd;
use std::{cmp, fmt};

use vm_memory::ByteValued;

use crate::file_buf::FileVolatileSlice;
use crate::file_traits::FileReadWriteVolatile;
use crate::BitmapSlice;

mod fs_cache_req_handler;
pub use self::fs_cache_req_handler::FsCacheReqHandler;

/// Ghost `/dev/fuse`: what the kernel would have received.
pub mod ghost {
    /// capacity of the recorded first emission
    pub const CAP: usize = 512;

    pub struct Dev {
        /// number of write(2)/writev(2) calls that would have been issued on the fuse fd
        pub events: usize,
        /// length of the first emission
        pub len: usize,
        /// bytes of the first emission
        pub bytes: [u8; CAP],
        /// when true the device refuses every write (errno), as write(2) may.  Concrete per
        /// harness instance: a symbolic refusal destroys constant propagation in the callers.
        pub refuse: bool,
        /// set when an emission was refused by the device
        pub failed: usize,
    }

    pub static mut DEV: Dev = Dev {
        events: 0,
        len: 0,
        bytes: [0; CAP],
        refuse: false,
        failed: 0,
    };

    pub fn reset(refuse: bool) {
        unsafe {
            DEV.events = 0;
            DEV.len = 0;
            DEV.failed = 0;
            DEV.refuse = refuse;
        }
    }

    fn refuse() -> bool {
        unsafe { DEV.refuse }
    }

    /// One write(2)/writev(2) on the fuse fd carrying the concatenation of `parts`.
    /// Contract of /dev/fuse: a reply is accepted whole or refused with an errno.
    pub fn emit(_fd: i32, parts: &[&[u8]]) -> Result<usize, nix::errno::Errno> {
        let total = parts.iter().fold(0usize, |a, p| a + p.len());
        unsafe {
            DEV.events += 1;
            if refuse() {
                DEV.failed += 1;
                return Err(nix::errno::Errno::EINVAL);
            }
            if DEV.events == 1 {
                let mut at = 0usize;
                for p in parts {
                    let room = if at < CAP { CAP - at } else { 0 };
                    let n = if p.len() < room { p.len() } else { room };
                    if n > 0 {
                        std::ptr::copy_nonoverlapping(p.as_ptr(), DEV.bytes.as_mut_ptr().add(at), n);
                    }
                    at += p.len();
                }
                DEV.len = total;
            }
        }
        #[cfg(not(kani))]
        {
            // outside Kani the model also performs the real system call so that the repository's
            // own tests (which read the reply back from a temp file) can be run against it.
            let r = match parts.len() {
                1 => nix::unistd::write(_fd, parts[0]),
                _ => {
                    let v: Vec<std::io::IoSlice> =
                        parts.iter().map(|p| std::io::IoSlice::new(p)).collect();
                    nix::sys::uio::writev(_fd, &v)
                }
            };
            return r;
        }
        #[cfg(kani)]
        Ok(total)
    }
}

/// Transport layer specific error codes (same variants as the real one, minus virtio ones).
#[derive(Debug)]
pub enum Error {
    DescriptorChainOverflow,
    FindMemoryRegion,
    InvalidChain,
    InvalidParameter,
    IoError(io::Error),
    SplitOutOfBounds(usize),
    VolatileMemoryError(vm_memory::VolatileMemoryError),
    SessionFailure(String),
}

impl fmt::Display for Error {
    fn fmt(&self, f: &mut fmt::Formatter) -> fmt::Result {
        write!(f, "transport error")
    }
}

pub type Result<T> = std::result::Result<T, Error>;

impl std::error::Error for Error {}

/// A buffer reference wrapper for fuse requests.
#[derive(Debug)]
pub struct FuseBuf<'a> {
    mem: &'a mut [u8],
}

impl<'a> FuseBuf<'a> {
    pub fn new(mem: &'a mut [u8]) -> FuseBuf<'a> {
        FuseBuf { mem }
    }
}

/// Reader: a cursor over one flat request buffer.
pub struct Reader<'a, S = ()> {
    ptr: *mut u8,
    len: usize,
    pos: usize,
    phantom: PhantomData<&'a mut [S]>,
}

impl<S> Clone for Reader<'_, S> {
    fn clone(&self) -> Self {
        Reader {
            ptr: self.ptr,
            len: self.len,
            pos: self.pos,
            phantom: PhantomData,
        }
    }
}

impl<S: BitmapSlice> Default for Reader<'_, S> {
    fn default() -> Self {
        Reader {
            ptr: std::ptr::NonNull::dangling().as_ptr(),
            len: 0,
            pos: 0,
            phantom: PhantomData,
        }
    }
}

impl<'a, S: BitmapSlice + Default> Reader<'a, S> {
    pub fn from_fuse_buffer(buf: FuseBuf<'a>) -> Result<Reader<'a, S>> {
        Ok(Reader {
            ptr: buf.mem.as_mut_ptr(),
            len: buf.mem.len(),
            pos: 0,
            phantom: PhantomData,
        })
    }
}

impl<S: BitmapSlice> Reader<'_, S> {
    /// Reads an object from the buffer (same contract as the real one: all or `UnexpectedEof`).
    pub fn read_obj<T: ByteValued>(&mut self) -> io::Result<T> {
        let mut obj = MaybeUninit::<T>::uninit();
        let buf = unsafe {
            ::std::slice::from_raw_parts_mut(obj.as_mut_ptr() as *mut u8, size_of::<T>())
        };
        self.read_exact(buf)?;
        Ok(unsafe { obj.assume_init() })
    }

    pub fn read_to_at<F: FileReadWriteVolatile>(
        &mut self,
        mut dst: F,
        count: usize,
        off: u64,
    ) -> io::Result<usize> {
        let n = cmp::min(count, self.len - self.pos);
        if n == 0 {
            return Ok(0);
        }
        let bufs = [unsafe { FileVolatileSlice::from_raw_ptr(self.ptr.add(self.pos), n) }];
        let done = dst.write_vectored_at_volatile(&bufs, off)?;
        self.pos += done;
        Ok(done)
    }

    pub fn read_to<F: FileReadWriteVolatile>(
        &mut self,
        mut dst: F,
        count: usize,
    ) -> io::Result<usize> {
        let n = cmp::min(count, self.len - self.pos);
        if n == 0 {
            return Ok(0);
        }
        let bufs = [unsafe { FileVolatileSlice::from_raw_ptr(self.ptr.add(self.pos), n) }];
        let done = dst.write_vectored_volatile(&bufs)?;
        self.pos += done;
        Ok(done)
    }

    /// verbatim from src/transport/mod.rs
    pub fn read_exact_to<F: FileReadWriteVolatile>(
        &mut self,
        mut dst: F,
        mut count: usize,
    ) -> io::Result<()> {
        while count > 0 {
            match self.read_to(&mut dst, count) {
                Ok(0) => {
                    return Err(io::Error::new(
                        io::ErrorKind::UnexpectedEof,
                        "failed to fill whole buffer",
                    ))
                }
                Ok(n) => count -= n,
                Err(ref e) if e.kind() == io::ErrorKind::Interrupted => {}
                Err(e) => return Err(e),
            }
        }

        Ok(())
    }

    pub fn available_bytes(&self) -> usize {
        self.len - self.pos
    }

    pub fn bytes_read(&self) -> usize {
        self.pos
    }

    pub fn split_at(&mut self, offset: usize) -> Result<Self> {
        if offset > self.len - self.pos {
            return Err(Error::SplitOutOfBounds(offset));
        }
        let other = Reader {
            ptr: unsafe { self.ptr.add(self.pos + offset) },
            len: self.len - self.pos - offset,
            pos: 0,
            phantom: PhantomData,
        };
        self.len = self.pos + offset;
        Ok(other)
    }
}

impl<S: BitmapSlice> io::Read for Reader<'_, S> {
    fn read(&mut self, buf: &mut [u8]) -> io::Result<usize> {
        let n = cmp::min(buf.len(), self.len - self.pos);
        if n > 0 {
            unsafe { std::ptr::copy_nonoverlapping(self.ptr.add(self.pos), buf.as_mut_ptr(), n) };
        }
        self.pos += n;
        Ok(n)
    }

    // same observable contract as std's default read_exact over the real Reader::read:
    // everything, or UnexpectedEof after consuming what was there.
    fn read_exact(&mut self, buf: &mut [u8]) -> io::Result<()> {
        let n = self.read(buf)?;
        if n < buf.len() {
            Err(io::Error::from(io::ErrorKind::UnexpectedEof))
        } else {
            Ok(())
        }
    }
}

/// Writer to send FUSE reply to the FUSE driver — mirrors src/transport/fusedev/mod.rs.
#[derive(Debug)]
pub struct FuseDevWriter<'a, S: BitmapSlice = ()> {
    fd: RawFd,
    buffered: bool,
    ptr: *mut u8,
    len: usize,
    cap: usize,
    bitmapslice: S,
    phantom: PhantomData<&'a mut [S]>,
}

impl<'a, S: BitmapSlice + Default> FuseDevWriter<'a, S> {
    pub fn new(fd: RawFd, data_buf: &'a mut [u8]) -> Result<FuseDevWriter<'a, S>> {
        Ok(FuseDevWriter {
            fd,
            buffered: false,
            ptr: data_buf.as_mut_ptr(),
            len: 0,
            cap: data_buf.len(),
            bitmapslice: S::default(),
            phantom: PhantomData,
        })
    }
}

impl<'a, S: BitmapSlice> FuseDevWriter<'a, S> {
    fn as_slice(&self) -> &[u8] {
        unsafe { std::slice::from_raw_parts(self.ptr, self.len) }
    }

    fn extend_from_slice(&mut self, data: &[u8]) {
        // the real code calls Vec::extend_from_slice on a Vec built over borrowed memory;
        // check_available_space() has established len + data.len() <= cap.
        assert!(self.len + data.len() <= self.cap, "model: would reallocate borrowed memory");
        if !data.is_empty() {
            unsafe { std::ptr::copy_nonoverlapping(data.as_ptr(), self.ptr.add(self.len), data.len()) };
        }
        self.len += data.len();
    }

    pub fn split_at(&mut self, offset: usize) -> Result<FuseDevWriter<'a, S>> {
        if self.cap < offset {
            return Err(Error::SplitOutOfBounds(offset));
        }

        let (len1, len2) = if self.len > offset {
            (offset, self.len - offset)
        } else {
            (self.len, 0)
        };
        let cap2 = self.cap - offset;
        let ptr = self.ptr;

        self.len = len1;
        self.cap = offset;
        self.buffered = true;

        Ok(FuseDevWriter {
            fd: self.fd,
            buffered: true,
            ptr: unsafe { ptr.add(offset) },
            len: len2,
            cap: cap2,
            bitmapslice: self.bitmapslice.clone(),
            phantom: PhantomData,
        })
    }

    pub fn commit(&mut self, other: Option<&Writer<'a, S>>) -> io::Result<usize> {
        if !self.buffered {
            return Ok(0);
        }

        let o: &[u8] = match other {
            Some(Writer::FuseDev(w)) => w.as_slice(),
            _ => &[],
        };
        let res = match (self.len, o.len()) {
            (0, 0) => Ok(0),
            (0, _) => ghost::emit(self.fd, &[o]),
            (_, 0) => ghost::emit(self.fd, &[self.as_slice()]),
            (_, _) => ghost::emit(self.fd, &[self.as_slice(), o]),
        };

        res.map_err(|e| io::Error::from_raw_os_error(e as i32))
    }

    pub fn bytes_written(&self) -> usize {
        self.len
    }

    pub fn available_bytes(&self) -> usize {
        self.cap - self.len
    }

    fn account_written(&mut self, count: usize) {
        self.len += count;
    }

    pub fn write_obj<T: ByteValued>(&mut self, val: T) -> io::Result<()> {
        self.write_all(val.as_slice())
    }

    pub fn write_from<F: FileReadWriteVolatile>(
        &mut self,
        mut src: F,
        count: usize,
    ) -> io::Result<usize> {
        self.check_available_space(count)?;

        let cnt = src.read_vectored_volatile(unsafe {
            &[FileVolatileSlice::from_raw_ptr(self.ptr.add(self.len), count)]
        })?;
        self.account_written(cnt);

        if self.buffered {
            Ok(cnt)
        } else {
            Self::do_write(self.fd, unsafe { std::slice::from_raw_parts(self.ptr, cnt) })
        }
    }

    pub fn write_from_at<F: FileReadWriteVolatile>(
        &mut self,
        mut src: F,
        count: usize,
        off: u64,
    ) -> io::Result<usize> {
        self.check_available_space(count)?;

        let cnt = src.read_vectored_at_volatile(
            unsafe { &[FileVolatileSlice::from_raw_ptr(self.ptr.add(self.len), count)] },
            off,
        )?;
        self.account_written(cnt);

        if self.buffered {
            Ok(cnt)
        } else {
            Self::do_write(self.fd, unsafe { std::slice::from_raw_parts(self.ptr, cnt) })
        }
    }

    pub fn write_all_from<F: FileReadWriteVolatile>(
        &mut self,
        mut src: F,
        mut count: usize,
    ) -> io::Result<()> {
        self.check_available_space(count)?;

        while count > 0 {
            match self.write_from(&mut src, count) {
                Ok(0) => {
                    return Err(io::Error::new(
                        io::ErrorKind::WriteZero,
                        "failed to write whole buffer",
                    ))
                }
                Ok(n) => count -= n,
                Err(ref e) if e.kind() == io::ErrorKind::Interrupted => {}
                Err(e) => return Err(e),
            }
        }

        Ok(())
    }

    fn check_available_space(&self, sz: usize) -> io::Result<()> {
        assert!(self.buffered || self.len == 0);
        if sz > self.available_bytes() {
            Err(io::Error::from(io::ErrorKind::InvalidData))
        } else {
            Ok(())
        }
    }

    fn do_write(fd: RawFd, data: &[u8]) -> io::Result<usize> {
        ghost::emit(fd, &[data]).map_err(|_e| io::Error::from(io::ErrorKind::Other))
    }
}

impl<S: BitmapSlice> Write for FuseDevWriter<'_, S> {
    fn write(&mut self, data: &[u8]) -> io::Result<usize> {
        self.check_available_space(data.len())?;

        if self.buffered {
            self.extend_from_slice(data);
            Ok(data.len())
        } else {
            Self::do_write(self.fd, data).map(|x| {
                self.account_written(x);
                x
            })
        }
    }

    fn write_vectored(&mut self, bufs: &[IoSlice<'_>]) -> io::Result<usize> {
        self.check_available_space(bufs.iter().fold(0, |acc, x| acc + x.len()))?;

        if self.buffered {
            let mut count = 0;
            for b in bufs.iter().filter(|b| !b.is_empty()) {
                self.extend_from_slice(b);
                count += b.len();
            }
            Ok(count)
        } else {
            if bufs.is_empty() {
                return Ok(0);
            }
            let r = match bufs.len() {
                1 => ghost::emit(self.fd, &[&bufs[0]]),
                2 => ghost::emit(self.fd, &[&bufs[0], &bufs[1]]),
                3 => ghost::emit(self.fd, &[&bufs[0], &bufs[1], &bufs[2]]),
                _ => {
                    let v: Vec<&[u8]> = bufs.iter().map(|b| &b[..]).collect();
                    ghost::emit(self.fd, &v)
                }
            };
            r.map(|x| {
                self.account_written(x);
                x
            })
            .map_err(|_e| io::Error::from(io::ErrorKind::Other))
        }
    }

    fn flush(&mut self) -> io::Result<()> {
        Err(io::Error::from(io::ErrorKind::Other))
    }
}

#[cfg(feature = "async-io")]
impl<'a, S: BitmapSlice> FuseDevWriter<'a, S> {
    // bodies as in src/transport/fusedev/mod.rs `mod async_io` with the device calls replaced;
    // the real async_write uses pwrite(fd, data, 0) — still one system call per emission.
    pub async fn async_write(&mut self, data: &[u8]) -> io::Result<usize> {
        self.check_available_space(data.len())?;
        if self.buffered {
            self.extend_from_slice(data);
            Ok(data.len())
        } else {
            ghost::emit(self.fd, &[data])
                .map(|x| {
                    self.account_written(x);
                    x
                })
                .map_err(|_e| io::Error::from(io::ErrorKind::Other))
        }
    }

    pub async fn async_write2(&mut self, data: &[u8], data2: &[u8]) -> io::Result<usize> {
        let len = data.len() + data2.len();
        self.check_available_space(len)?;
        if self.buffered {
            self.extend_from_slice(data);
            self.extend_from_slice(data2);
            Ok(len)
        } else {
            ghost::emit(self.fd, &[data, data2])
                .map(|x| {
                    self.account_written(x);
                    x
                })
                .map_err(|_e| io::Error::from(io::ErrorKind::Other))
        }
    }

    pub async fn async_write3(
        &mut self,
        data: &[u8],
        data2: &[u8],
        data3: &[u8],
    ) -> io::Result<usize> {
        let len = data.len() + data2.len() + data3.len();
        self.check_available_space(len)?;
        if self.buffered {
            self.extend_from_slice(data);
            self.extend_from_slice(data2);
            self.extend_from_slice(data3);
            Ok(len)
        } else {
            ghost::emit(self.fd, &[data, data2, data3])
                .map(|x| {
                    self.account_written(x);
                    x
                })
                .map_err(|_e| io::Error::from(io::ErrorKind::Other))
        }
    }

    pub async fn async_write_all(&mut self, mut buf: &[u8]) -> io::Result<()> {
        while !buf.is_empty() {
            match self.async_write(buf).await {
                Ok(0) => {
                    return Err(io::Error::from(io::ErrorKind::WriteZero));
                }
                Ok(n) => buf = &buf[n..],
                Err(ref e) if e.kind() == io::ErrorKind::Interrupted => {}
                Err(e) => return Err(e),
            }
        }
        Ok(())
    }

    /// as src/transport/fusedev/mod.rs async_commit: (0,0) -> Ok(0); otherwise ONE device write
    /// (pwrite/writev) -- note: unlike `commit` it does not look at `buffered`.
    pub async fn async_commit(&mut self, other: Option<&Writer<'a, S>>) -> io::Result<usize> {
        let o: &[u8] = match other {
            Some(Writer::FuseDev(w)) => w.as_slice(),
            _ => &[],
        };
        let res = match (self.len, o.len()) {
            (0, 0) => Ok(0),
            (0, _) => ghost::emit(self.fd, &[o]),
            (_, 0) => ghost::emit(self.fd, &[self.as_slice()]),
            (_, _) => ghost::emit(self.fd, &[self.as_slice(), o]),
        };
        res.map_err(|_e| io::Error::from(io::ErrorKind::Other))
    }

    pub async fn async_write_from_at<F: crate::file_traits::AsyncFileReadWriteVolatile>(
        &mut self,
        src: &F,
        count: usize,
        off: u64,
    ) -> io::Result<usize> {
        self.check_available_space(count)?;
        let buf = unsafe { crate::file_buf::FileVolatileBuf::from_raw_ptr(self.ptr, 0, count) };
        let (res, _) = src.async_read_at_volatile(buf, off).await;
        match res {
            Ok(cnt) => {
                self.account_written(cnt);
                if self.buffered {
                    Ok(cnt)
                } else {
                    ghost::emit(self.fd, &[unsafe { std::slice::from_raw_parts(self.ptr, cnt) }])
                        .map_err(|_e| io::Error::from(io::ErrorKind::Other))
                }
            }
            Err(e) => Err(e),
        }
    }
}

#[cfg(feature = "async-io")]
impl<'a, S: BitmapSlice> Reader<'a, S> {
    pub async fn async_read_to_at<F: crate::file_traits::AsyncFileReadWriteVolatile>(
        &mut self,
        dst: &F,
        count: usize,
        off: u64,
    ) -> io::Result<usize> {
        let n = cmp::min(count, self.len - self.pos);
        if n == 0 {
            return Ok(0);
        }
        let bufs = vec![unsafe { crate::file_buf::FileVolatileBuf::from_raw_ptr(self.ptr.add(self.pos), n, n) }];
        let (res, _) = dst.async_write_vectored_at_volatile(bufs, off).await;
        match res {
            Ok(cnt) => {
                self.pos += cnt;
                Ok(cnt)
            }
            Err(e) => Err(e),
        }
    }
}

/// Writer to send reply message.
pub enum Writer<'a, S: BitmapSlice = ()> {
    FuseDev(FuseDevWriter<'a, S>),
    Noop(PhantomData<&'a S>),
}

impl<S: BitmapSlice> Writer<'_, S> {
    pub fn write_from_at<F: FileReadWriteVolatile>(
        &mut self,
        src: F,
        count: usize,
        off: u64,
    ) -> io::Result<usize> {
        match self {
            Writer::FuseDev(w) => w.write_from_at(src, count, off),
            _ => Err(std::io::Error::from_raw_os_error(libc::EINVAL)),
        }
    }

    pub fn split_at(&mut self, offset: usize) -> Result<Self> {
        match self {
            Writer::FuseDev(w) => w.split_at(offset).map(|w| w.into()),
            _ => Err(Error::InvalidParameter),
        }
    }

    pub fn available_bytes(&self) -> usize {
        match self {
            Writer::FuseDev(w) => w.available_bytes(),
            _ => 0,
        }
    }

    pub fn bytes_written(&self) -> usize {
        match self {
            Writer::FuseDev(w) => w.bytes_written(),
            _ => 0,
        }
    }

    pub fn commit(&mut self, other: Option<&Self>) -> io::Result<usize> {
        match self {
            Writer::FuseDev(w) => w.commit(other),
            _ => Ok(0),
        }
    }
}

impl<S: BitmapSlice> io::Write for Writer<'_, S> {
    fn write(&mut self, buf: &[u8]) -> io::Result<usize> {
        match self {
            Writer::FuseDev(w) => w.write(buf),
            _ => Err(std::io::Error::from_raw_os_error(libc::EINVAL)),
        }
    }

    fn write_vectored(&mut self, bufs: &[IoSlice<'_>]) -> io::Result<usize> {
        match self {
            Writer::FuseDev(w) => w.write_vectored(bufs),
            _ => Err(std::io::Error::from_raw_os_error(libc::EINVAL)),
        }
    }

    fn flush(&mut self) -> io::Result<()> {
        match self {
            Writer::FuseDev(w) => w.flush(),
            _ => Ok(()),
        }
    }
}

#[cfg(feature = "async-io")]
impl<'a, S: BitmapSlice> Writer<'a, S> {
    pub async fn async_write(&mut self, data: &[u8]) -> io::Result<usize> {
        match self {
            Writer::FuseDev(w) => w.async_write(data).await,
            _ => Err(std::io::Error::from_raw_os_error(libc::EINVAL)),
        }
    }
    pub async fn async_write2(&mut self, data: &[u8], data2: &[u8]) -> io::Result<usize> {
        match self {
            Writer::FuseDev(w) => w.async_write2(data, data2).await,
            _ => Err(std::io::Error::from_raw_os_error(libc::EINVAL)),
        }
    }
    pub async fn async_write3(
        &mut self,
        data: &[u8],
        data2: &[u8],
        data3: &[u8],
    ) -> io::Result<usize> {
        match self {
            Writer::FuseDev(w) => w.async_write3(data, data2, data3).await,
            _ => Err(std::io::Error::from_raw_os_error(libc::EINVAL)),
        }
    }
    pub async fn async_write_all(&mut self, buf: &[u8]) -> io::Result<()> {
        match self {
            Writer::FuseDev(w) => w.async_write_all(buf).await,
            _ => Err(std::io::Error::from_raw_os_error(libc::EINVAL)),
        }
    }
    pub async fn async_commit(&mut self, other: Option<&Writer<'a, S>>) -> io::Result<usize> {
        match self {
            Writer::FuseDev(w) => w.async_commit(other).await,
            _ => Err(std::io::Error::from_raw_os_error(libc::EINVAL)),
        }
    }
    pub async fn async_write_from_at<F: crate::file_traits::AsyncFileReadWriteVolatile>(
        &mut self,
        src: &F,
        count: usize,
        off: u64,
    ) -> io::Result<usize> {
        match self {
            Writer::FuseDev(w) => w.async_write_from_at(src, count, off).await,
            _ => Err(std::io::Error::from_raw_os_error(libc::EINVAL)),
        }
    }
}

impl<'a, S: BitmapSlice> From<FuseDevWriter<'a, S>> for Writer<'a, S> {
    fn from(w: FuseDevWriter<'a, S>) -> Self {
        Writer::FuseDev(w)
    }
}

/// `sysconf(_SC_PAGESIZE)`: 4096 on the targets this check runs on (stub, listed in evidence).
#[inline(always)]
pub fn pagesize() -> usize {
    4096
}
