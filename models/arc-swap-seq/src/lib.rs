//! VERIFICATION MODEL of the `arc-swap` crate (sequential specification).
//!
//! Kani executes a single thread, so the lock-free machinery of the real crate (thread-local
//! debt lists, helping strategy) contributes nothing observable, but costs CBMC minutes per
//! `load()` and needs `pthread_key_create`.  Sequentially an `ArcSwap<T>` is exactly a cell holding
//! an `Arc<T>`: `load` hands out a guard that keeps the current value alive, `store` replaces it.
//! Only the API that fuse-backend-rs uses is provided.  Listed as a stub in every evidence file.
use std::cell::UnsafeCell;
use std::ops::Deref;
use std::sync::Arc;

pub struct ArcSwap<T> {
    inner: UnsafeCell<Arc<T>>,
}

unsafe impl<T: Send + Sync> Send for ArcSwap<T> {}
unsafe impl<T: Send + Sync> Sync for ArcSwap<T> {}

pub struct Guard<T> {
    inner: T,
}

impl<T> Deref for Guard<T> {
    type Target = T;
    fn deref(&self) -> &T {
        &self.inner
    }
}

impl<T> Guard<Arc<T>> {
    pub fn into_inner(g: Self) -> Arc<T> {
        g.inner
    }
}

impl<T> ArcSwap<T> {
    pub fn new(val: Arc<T>) -> Self {
        ArcSwap { inner: UnsafeCell::new(val) }
    }
    pub fn from_pointee(val: T) -> Self {
        Self::new(Arc::new(val))
    }
    pub fn load(&self) -> Guard<Arc<T>> {
        Guard { inner: unsafe { (*self.inner.get()).clone() } }
    }
    pub fn load_full(&self) -> Arc<T> {
        unsafe { (*self.inner.get()).clone() }
    }
    pub fn store(&self, val: Arc<T>) {
        unsafe {
            *self.inner.get() = val;
        }
    }
    pub fn swap(&self, val: Arc<T>) -> Arc<T> {
        unsafe { std::mem::replace(&mut *self.inner.get(), val) }
    }
    pub fn into_inner(self) -> Arc<T> {
        self.inner.into_inner()
    }
}

impl<T: Default> Default for ArcSwap<T> {
    fn default() -> Self {
        Self::from_pointee(T::default())
    }
}

impl<T: std::fmt::Debug> std::fmt::Debug for ArcSwap<T> {
    fn fmt(&self, f: &mut std::fmt::Formatter<'_>) -> std::fmt::Result {
        f.debug_tuple("ArcSwap").field(&self.load_full()).finish()
    }
}
